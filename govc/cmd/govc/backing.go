package main

import (
	"fmt"
	"os"
	"strings"
)

// Backing arrays of slices. Slices are value sequences in the VCs (DESIGN: slice model), which is exact only while
// no two live slices share a writable backing array. Where a function hands out a slice and keeps another one that
// is appended to later, that side condition is a proof obligation of its own: the builtin separate(a.f, b.g) in an
// ensures clause. To decide it the executor tracks, per path and outside the SMT terms, which array a slice value
// points into and at which offset:
//   make / a literal         -> a fresh array, offset 0
//   x[lo:hi]                 -> the array of x, offset of x + lo
//   append(x, ...)           -> the array of x at the offset of x (worst case: it may also be a fresh one)
//   load of a field          -> what was stored there on this path, else an array named after the loaded value
//   call, loop cut           -> what is known about a field is forgotten when its heap component is written or havocked;
//                               a fresh array passed to a call has escaped
// separate(a, b): the elements of a (offset .. offset+len) are not reachable through b (offset .. end of the array).

type Backing struct {
	origin string
	lo     Term
	fresh  bool
}

// storedBacking: what was stored in a field, valid as long as the heap component of that field is the one the store produced
type storedBacking struct {
	b      *Backing
	heapAt string
}

func isSeqSort(s string) bool { return len(s) > 4 && s[:4] == "Seq_" }

func (vc *VC) backKey(st *State, p *Ptr) (string, bool) {
	if p == nil || p.Kind != PRef || len(p.Path) != 1 || !p.Path[0].IsField {
		return "", false
	}
	hn, _ := vc.compHeap(p.SSort, p.Path[0].FieldName)
	return hn + "|" + p.Ref.S, true
}

// backLoaded: the backing of a slice value just loaded from p.
func (vc *VC) backLoaded(st *State, p *Ptr, v Term) *Backing {
	if !isSeqSort(v.Sort) {
		return nil
	}
	if k, ok := vc.backKey(st, p); ok {
		if os.Getenv("GOVC_DEBUG_BACK") != "" {
			fmt.Fprintf(os.Stderr, "backLoaded key=%s have=%v heapNow=%.60s\n", k, st.backOf, st.heap[k[:strings.Index(k, "|")]].S)
		}
		if b, ok := st.backOf[k]; ok && b.heapAt == st.heap[k[:strings.Index(k, "|")]].S {
			return b.b
		}
		return &Backing{origin: "value " + v.S, lo: Term{"0", SInt}}
	}
	return nil
}

func (vc *VC) backStored(st *State, p *Ptr, v Val) {
	k, ok := vc.backKey(st, p)
	if !ok || (v.K == VTerm && !isSeqSort(v.T.Sort)) {
		return
	}
	n := make(map[string]storedBacking, len(st.backOf)+1)
	for a, b := range st.backOf {
		n[a] = b
	}
	n[k] = storedBacking{b: v.Back, heapAt: st.heap[k[:strings.Index(k, "|")]].S}
	st.backOf = n
}

// backForget: a call or a loop cut. Fresh arrays among the arguments have escaped.
func (st *State) backForget(args []Val) {
	for _, a := range args {
		if a.Back != nil && a.Back.fresh {
			n := map[string]bool{a.Back.origin: true}
			for o := range st.escaped {
				n[o] = true
			}
			st.escaped = n
		}
	}
}

// separateFormula: the condition under which the elements of a cannot be reached through b.
func (vc *VC) separateFormula(st *State, a, b *Backing, lenA string) string {
	if a == nil || b == nil {
		return "false"
	}
	if a.origin == b.origin {
		return or(app("=", lenA, "0"), app("<=", app("+", a.lo.S, lenA), b.lo.S))
	}
	if (a.fresh && !st.escaped[a.origin]) || (b.fresh && !st.escaped[b.origin]) {
		return "true"
	}
	return app("=", lenA, "0")
}
