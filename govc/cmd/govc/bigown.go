package main

// Ownership of big.Int objects. math/big values are mathematical in the VCs (a *big.Int is an optional integer), so
// two pointers to one big.Int are invisible there. That is exact as long as a big.Int is mutated in place only by the
// function that allocated it (an accumulator, a field of a struct it has just built). Any other in-place mutation may
// change a value that is shared -- a constant of a cached program, the id of a transaction already handed out -- and is
// reported as an obligation of its own. Ownership is decided statically on the SSA of the function:
//   new(big.Int), &big.Int{}, big.NewInt(..)                         owned
//   z.Add(..), z.Set(..), ... (methods returning their receiver)      owned if z is
//   a local variable (or captured variable)                          owned if everything ever stored in it is
//   a field of a struct allocated in this function                   owned if everything stored in that field is
//   the result of a repository function                              owned if everything it returns is (two levels)
//   anything else (parameter, element of a slice or map, field of a parameter, type assertion of such) not owned

import (
	"go/types"

	"golang.org/x/tools/go/ssa"
)

func isBigIntPtr(t types.Type) bool {
	pt, ok := t.Underlying().(*types.Pointer)
	if !ok {
		return false
	}
	// big.Int, big.Rat and named types defined as one of them (machine.MonetaryInt): the underlying struct of
	// big.Int is {neg bool; abs nat}, that of big.Rat {a, b Int}
	st, ok := pt.Elem().Underlying().(*types.Struct)
	if !ok || st.NumFields() != 2 {
		return false
	}
	f0, f1 := st.Field(0), st.Field(1)
	if f0.Pkg() == nil || f0.Pkg().Path() != "math/big" {
		return false
	}
	return (f0.Name() == "neg" && f1.Name() == "abs") || (f0.Name() == "a" && f1.Name() == "b")
}

type ownCtx struct {
	p     *Program
	seen  map[ssa.Value]bool
	depth int
}

// ownedBig reports whether the big.Int v points to was allocated by fn (see the file comment).
func (p *Program) ownedBig(v ssa.Value) bool {
	c := &ownCtx{p: p, seen: map[ssa.Value]bool{}}
	return c.own(v)
}

func (c *ownCtx) own(v ssa.Value) bool {
	if c.seen[v] {
		return true // a cycle through an accumulator: decided by the other stores
	}
	c.seen[v] = true
	switch x := v.(type) {
	case *ssa.Alloc:
		return true // new(big.Int), &big.Int{}: the pointer itself is the allocation
	case *ssa.Const:
		return x.IsNil()
	case *ssa.ChangeType:
		return c.own(x.X)
	case *ssa.Convert:
		return c.own(x.X)
	case *ssa.Phi:
		for _, e := range x.Edges {
			if !c.own(e) {
				return false
			}
		}
		return true
	case *ssa.Extract:
		return c.own(x.Tuple)
	case *ssa.Call:
		callee := x.Call.StaticCallee()
		if callee == nil {
			return false
		}
		name := callee.String()
		if name == "math/big.NewInt" || name == "math/big.NewRat" {
			return true
		}
		if callee.Signature.Recv() != nil && isBigIntPtr(callee.Signature.Recv().Type()) && callee.Pkg != nil && callee.Pkg.Pkg.Path() == "math/big" {
			// methods of big.Int / big.Rat that return a *big.Int return their receiver
			return len(x.Call.Args) > 0 && c.own(x.Call.Args[0])
		}
		if callee.Blocks != nil && c.p.inRepoFn(callee) && c.depth < 2 {
			c.depth++
			defer func() { c.depth-- }()
			for _, b := range callee.Blocks {
				for _, ins := range b.Instrs {
					if r, ok := ins.(*ssa.Return); ok {
						for _, res := range r.Results {
							if isBigIntPtr(res.Type()) && !c.own(res) {
								return false
							}
						}
					}
				}
			}
			return true
		}
		return false
	case *ssa.UnOp:
		// a load
		return c.ownLoc(x.X)
	}
	return false
}

// ownLoc: everything ever stored at this address is owned, and the address itself belongs to this function.
func (c *ownCtx) ownLoc(addr ssa.Value) bool {
	switch a := addr.(type) {
	case *ssa.Alloc:
		return c.storesOwned(a.Parent(), func(s *ssa.Store) bool { return s.Addr == a || c.sameFree(s.Addr, a) })
	case *ssa.FreeVar:
		// a captured variable: the variable of the enclosing function
		fn := a.Parent()
		par := fn.Parent()
		if par == nil {
			return false
		}
		idx := -1
		for i, fv := range fn.FreeVars {
			if fv == a {
				idx = i
			}
		}
		var outer ssa.Value
		for _, b := range par.Blocks {
			for _, ins := range b.Instrs {
				if mc, ok := ins.(*ssa.MakeClosure); ok && mc.Fn == fn && idx >= 0 && idx < len(mc.Bindings) {
					outer = mc.Bindings[idx]
				}
			}
		}
		if outer == nil {
			return false
		}
		return c.ownLoc(outer)
	case *ssa.FieldAddr:
		// a field of a struct allocated here (or by a repository function returning a fresh one): every value stored
		// in that field of that very object -- where it is built and here -- must be owned
		roots := map[*ssa.Alloc]bool{}
		if !c.structRoots(a.X, roots, map[ssa.Value]bool{}) || len(roots) == 0 {
			return false
		}
		fns := map[*ssa.Function]bool{a.Parent(): true}
		for r := range roots {
			fns[r.Parent()] = true
		}
		for fn := range fns {
			ok := c.storesOwned(fn, func(s *ssa.Store) bool {
				fa, isF := s.Addr.(*ssa.FieldAddr)
				if !isF || fa.Field != a.Field {
					return false
				}
				rs := map[*ssa.Alloc]bool{}
				if !c.structRoots(fa.X, rs, map[ssa.Value]bool{}) {
					// an unknown object of the same type: not this one if this one's roots are all local allocations
					return false
				}
				for r := range rs {
					if roots[r] {
						return true
					}
				}
				return false
			})
			if !ok {
				return false
			}
		}
		return true
	}
	return false
}

// structRoots collects the allocation sites the struct pointer v may designate; false if some source is not an
// allocation of this function or of a repository function it calls (parameter, field, element, ...).
func (c *ownCtx) structRoots(v ssa.Value, out map[*ssa.Alloc]bool, seen map[ssa.Value]bool) bool {
	if seen[v] {
		return true
	}
	seen[v] = true
	switch x := v.(type) {
	case *ssa.Alloc:
		out[x] = true
		return true
	case *ssa.ChangeType:
		return c.structRoots(x.X, out, seen)
	case *ssa.Phi:
		for _, e := range x.Edges {
			if !c.structRoots(e, out, seen) {
				return false
			}
		}
		return true
	case *ssa.UnOp:
		a, ok := x.X.(*ssa.Alloc)
		if !ok {
			return false
		}
		any := false
		for _, f := range append([]*ssa.Function{a.Parent()}, a.Parent().AnonFuncs...) {
			for _, b := range f.Blocks {
				for _, ins := range b.Instrs {
					if s, ok := ins.(*ssa.Store); ok && (s.Addr == a || c.sameFree(s.Addr, a)) {
						any = true
						if !c.structRoots(s.Val, out, seen) {
							return false
						}
					}
				}
			}
		}
		return any
	case *ssa.Call:
		callee := x.Call.StaticCallee()
		if callee == nil || callee.Blocks == nil || !c.p.inRepoFn(callee) || c.depth >= 2 {
			return false
		}
		c.depth++
		defer func() { c.depth-- }()
		for _, b := range callee.Blocks {
			for _, ins := range b.Instrs {
				if r, ok := ins.(*ssa.Return); ok {
					for _, res := range r.Results {
						if _, isPtr := res.Type().Underlying().(*types.Pointer); isPtr {
							if !c.structRoots(res, out, seen) {
								return false
							}
						}
					}
				}
			}
		}
		return true
	}
	return false
}

func (c *ownCtx) sameFree(addr ssa.Value, a *ssa.Alloc) bool {
	fv, ok := addr.(*ssa.FreeVar)
	if !ok {
		return false
	}
	fn := fv.Parent()
	if fn.Parent() != a.Parent() {
		return false
	}
	for _, b := range a.Parent().Blocks {
		for _, ins := range b.Instrs {
			if mc, ok := ins.(*ssa.MakeClosure); ok && mc.Fn == fn {
				for i, bind := range mc.Bindings {
					if bind == a && i < len(fn.FreeVars) && fn.FreeVars[i] == fv {
						return true
					}
				}
			}
		}
	}
	return false
}

// storesOwned: every store selected by sel, in fn and its closures, stores an owned value.
func (c *ownCtx) storesOwned(fn *ssa.Function, sel func(*ssa.Store) bool) bool {
	if fn == nil {
		return false
	}
	fns := append([]*ssa.Function{fn}, fn.AnonFuncs...)
	for _, f := range fns {
		for _, b := range f.Blocks {
			for _, ins := range b.Instrs {
				if s, ok := ins.(*ssa.Store); ok && sel(s) && isBigIntPtr(s.Val.Type()) {
					if !c.own(s.Val) {
						return false
					}
				}
			}
		}
	}
	return true
}

// freshStruct: the struct pointer designates an object allocated in this function (directly, through a local that only
// ever holds such objects, or as the result of a repository function returning one).
func (c *ownCtx) freshStruct(v ssa.Value) bool {
	switch x := v.(type) {
	case *ssa.Alloc:
		return true
	case *ssa.UnOp:
		if a, ok := x.X.(*ssa.Alloc); ok {
			okAll := true
			any := false
			for _, b := range a.Parent().Blocks {
				for _, ins := range b.Instrs {
					if s, ok := ins.(*ssa.Store); ok && s.Addr == a {
						any = true
						if !c.freshStruct(s.Val) {
							okAll = false
						}
					}
				}
			}
			return any && okAll
		}
	case *ssa.Call:
		callee := x.Call.StaticCallee()
		if callee != nil && callee.Blocks != nil && c.p.inRepoFn(callee) && c.depth < 2 {
			c.depth++
			defer func() { c.depth-- }()
			for _, b := range callee.Blocks {
				for _, ins := range b.Instrs {
					if r, ok := ins.(*ssa.Return); ok {
						for _, res := range r.Results {
							if _, isPtr := res.Type().Underlying().(*types.Pointer); isPtr && !c.freshStruct(res) {
								return false
							}
						}
					}
				}
			}
			return true
		}
	}
	return false
}

// ---- escape then mutate. An owned big.Int may be mutated in place only while nothing else can see it. If a pointer
// that may designate the same allocation has been stored in a map, a slice element or a field, returned, or handed to
// another function, and the mutation can execute after that, the stored value changes behind its holder's back (every
// entry of a map pointing at one accumulator). Decided on the SSA: allocation sites a value may point to, escapes of
// those sites, control-flow reachability from the escape to the mutation.

func (p *Program) bigRoots(v ssa.Value, seen map[ssa.Value]bool, out map[ssa.Value]bool) {
	if seen[v] {
		return
	}
	seen[v] = true
	switch x := v.(type) {
	case *ssa.Alloc:
		out[x] = true
	case *ssa.ChangeType:
		p.bigRoots(x.X, seen, out)
	case *ssa.Convert:
		p.bigRoots(x.X, seen, out)
	case *ssa.Phi:
		for _, e := range x.Edges {
			p.bigRoots(e, seen, out)
		}
	case *ssa.Extract:
		p.bigRoots(x.Tuple, seen, out)
	case *ssa.Call:
		callee := x.Call.StaticCallee()
		if callee == nil {
			return
		}
		name := callee.String()
		if name == "math/big.NewInt" || name == "math/big.NewRat" {
			out[x] = true
			return
		}
		if callee.Signature.Recv() != nil && callee.Pkg != nil && callee.Pkg.Pkg.Path() == "math/big" && len(x.Call.Args) > 0 {
			p.bigRoots(x.Call.Args[0], seen, out)
		}
	case *ssa.UnOp:
		// a load of a local (or captured) variable: whatever is stored there
		var fn *ssa.Function
		var sel func(*ssa.Store) bool
		c := &ownCtx{p: p}
		switch a := x.X.(type) {
		case *ssa.Alloc:
			fn = a.Parent()
			sel = func(s *ssa.Store) bool { return s.Addr == a || c.sameFree(s.Addr, a) }
		default:
			return
		}
		for _, f := range append([]*ssa.Function{fn}, fn.AnonFuncs...) {
			for _, b := range f.Blocks {
				for _, ins := range b.Instrs {
					if s, ok := ins.(*ssa.Store); ok && sel(s) {
						p.bigRoots(s.Val, seen, out)
					}
				}
			}
		}
	}
}

// escapedBefore: some pointer to one of the allocations the receiver of the mutation `mut` may designate escapes at an
// instruction from which mut is reachable.
func (p *Program) escapedBefore(mut ssa.Instruction, recv ssa.Value) (string, bool) {
	roots := map[ssa.Value]bool{}
	p.bigRoots(recv, map[ssa.Value]bool{}, roots)
	if len(roots) == 0 {
		return "", false
	}
	fn := mut.Parent()
	shares := func(v ssa.Value) bool {
		if v == nil || !isBigIntPtr(v.Type()) {
			return false
		}
		r := map[ssa.Value]bool{}
		p.bigRoots(v, map[ssa.Value]bool{}, r)
		for k := range r {
			if roots[k] {
				return true
			}
		}
		return false
	}
	for _, b := range fn.Blocks {
		for i, ins := range b.Instrs {
			esc := false
			switch x := ins.(type) {
			case *ssa.MapUpdate:
				esc = shares(x.Value)
			case *ssa.Store:
				if _, local := x.Addr.(*ssa.Alloc); !local {
					esc = shares(x.Val)
				}
			case *ssa.MakeInterface:
				esc = shares(x.X)
			case *ssa.Send:
				esc = shares(x.X)
			case ssa.CallInstruction:
				callee := x.Common().StaticCallee()
				if callee != nil && callee.Pkg != nil && callee.Pkg.Pkg.Path() == "math/big" {
					break
				}
				for _, a := range x.Common().Args {
					esc = esc || shares(a)
				}
			}
			if !esc {
				continue
			}
			if reachesInstr(b, i, mut, roots) {
				return p.fset.Position(ins.Pos()).String(), true
			}
		}
	}
	return "", false
}

// reachesInstr: control can flow from just after instruction i of block b to the instruction target without executing
// one of the barrier instructions (the allocation sites of the receiver: past one of them the receiver is a new object).
func reachesInstr(b *ssa.BasicBlock, i int, target ssa.Instruction, barrier map[ssa.Value]bool) bool {
	// scan returns true if target is met in blk from index from on; stop=true if a barrier ends the path inside blk
	scan := func(blk *ssa.BasicBlock, from int) (found, stop bool) {
		for j := from; j < len(blk.Instrs); j++ {
			ins := blk.Instrs[j]
			if ins == target {
				return true, true
			}
			if v, ok := ins.(ssa.Value); ok && barrier[v] {
				return false, true
			}
		}
		return false, false
	}
	if found, stop := scan(b, i+1); found {
		return true
	} else if stop {
		return false
	}
	seen := map[*ssa.BasicBlock]bool{}
	work := append([]*ssa.BasicBlock{}, b.Succs...)
	for len(work) > 0 {
		n := work[len(work)-1]
		work = work[:len(work)-1]
		if seen[n] {
			continue
		}
		seen[n] = true
		found, stop := scan(n, 0)
		if found {
			return true
		}
		if !stop {
			work = append(work, n.Succs...)
		}
	}
	return false
}
