package main

// Calls: builtins, extern models, modular use of contracts, inlining, havoc.

import (
	"fmt"
	"go/types"
	"strings"

	"golang.org/x/tools/go/ssa"
)

type CallCont func(st *State, res Val, panicked bool)

func (ex *Exec) call(fr *Frame, x *ssa.Call, st *State, k CallCont) {
	common := x.Common()
	var args []Val
	for _, a := range common.Args {
		args = append(args, ex.val(fr, st, a))
		ex.checkTypeInv(fr, st, args[len(args)-1], a.Type(), "passed to a call")
	}
	if b, ok := common.Value.(*ssa.Builtin); ok {
		ex.builtin(fr, common, b, args, st, k)
		return
	}
	if common.IsInvoke() {
		recv := ex.val(fr, st, common.Value)
		ex.invoke(fr, x, common, recv, args, st, k)
		return
	}
	var fnv Val
	if sc := common.StaticCallee(); sc != nil {
		if mc, ok := common.Value.(*ssa.MakeClosure); ok {
			fnv = ex.val(fr, st, mc)
		} else {
			fnv = Val{K: VClosure, Fn: sc}
		}
	} else {
		fnv = ex.val(fr, st, common.Value)
	}
	ex.callValue(fr, fnv, args, x, common, st, k)
}

func (ex *Exec) callValue(fr *Frame, fnv Val, args []Val, site ssa.Instruction, common *ssa.CallCommon, st *State, k CallCont) {
	vc := ex.vc
	if b, ok := common.Value.(*ssa.Builtin); ok {
		ex.builtin(fr, common, b, args, st, k)
		return
	}
	if common.IsInvoke() && fnv.K != VClosure {
		// deferred interface method call
		ex.invoke(fr, site, common, fnv, args, st, k)
		return
	}
	if fnv.K == VTerm && fnv.T.Sort == SFunc {
		if c, ok := vc.funcConsts[fnv.T.S]; ok {
			fnv = c
		}
	}
	if fnv.K == VClosure {
		ex.callFunc(fr, fnv.Fn, fnv.Bind, args, site, st, k)
		return
	}
	// dynamic call of an opaque function value
	if fnv.K == VTerm {
		// a function stored in a field for which a closure spec is declared
		if u, ok := common.Value.(*ssa.UnOp); ok {
			if fa, ok := u.X.(*ssa.FieldAddr); ok {
				pt := fa.X.Type().Underlying().(*types.Pointer).Elem()
				if nt, ok := types.Unalias(pt).(*types.Named); ok {
					if stt, ok := nt.Underlying().(*types.Struct); ok && nt.Obj().Pkg() != nil {
						key := nt.Obj().Pkg().Name() + "." + nt.Obj().Name() + "." + stt.Field(fa.Field).Name()
						if sn, ok := vc.prog.contracts.FieldSpecs[key]; ok {
							if sp := vc.prog.contracts.Specs[sn]; sp != nil {
								ex.applyContract(fr, sp, nil, common.Signature(), args, site, st, k, "spec "+sp.Name)
								return
							}
							vc.fatalf("fieldspec %s: unknown spec %s", key, sn)
						}
					}
				}
			}
		}
		if td := vc.prog.typeDecl("typespec", common.Value.Type()); td != nil {
			if sp := vc.prog.contracts.Specs[td.Spec]; sp != nil {
				ex.applyContract(fr, sp, nil, common.Signature(), args, site, st, k, "spec "+sp.Name)
				return
			}
			vc.fatalf("typespec %s: unknown spec %s", td.Name, td.Spec)
		}
		if sp, ok := vc.funcSpecs[fnv.T.S]; ok {
			ex.applyContract(fr, sp, nil, common.Signature(), args, site, st, k, "spec "+sp.Name)
			return
		}
		if spec := ex.closureSpecFor(fr, common.Value); spec != nil {
			ex.applyContract(fr, spec, nil, common.Signature(), args, site, st, k, "spec "+spec.Name)
			return
		}
	}
	// closed world for function values: the targets are the repository functions of that signature whose
	// value is taken somewhere (library function values are assumed not to call the ledger)
	gs := &ghostSet{set: map[string]bool{}}
	for _, t := range vc.prog.funcValuesOfType(common.Value.Type()) {
		gs.add(vc.prog.mayModifyGhosts(t))
	}
	if gs.all {
		vc.note("dynamic call of an unknown function value at %s: havoc of the heap and all ghost state", ex.where())
	} else {
		vc.note("dynamic call of an unknown function value at %s: havoc of the heap and of the ghost state its possible targets can reach: %v", ex.where(), sortedKeys(gs.set))
	}
	ex.havocAllG(st, gs)
	k(st, ex.resultVal(st, common.Signature(), "res_dynamic"), false)
}

// closureSpecFor: a parameter of function type may be declared to implement a
// closure spec through `requires implements(param, Spec)` in the contract.
func (ex *Exec) closureSpecFor(fr *Frame, v ssa.Value) *FuncContract {
	vc := ex.vc
	name := ""
	switch x := v.(type) {
	case *ssa.Parameter:
		name = x.Name()
	case *ssa.UnOp:
		switch a := x.X.(type) {
		case *ssa.Alloc:
			name = a.Comment
		case *ssa.FreeVar:
			name = a.Name()
		}
	}
	if name == "" {
		return nil
	}
	// the declaring contract is that of this function or of an enclosing one (captured parameter)
	for f := fr; f != nil; f = f.caller {
		if f.contract == nil {
			continue
		}
		for _, r := range f.contract.Requires {
			if c, ok := r.Expr.(ECall); ok && c.Fun == "implements" && len(c.Args) == 2 {
				if id, ok := c.Args[0].(EIdent); ok && id.Name == name {
					if sn, ok := c.Args[1].(EIdent); ok {
						return vc.prog.contracts.Specs[sn.Name]
					}
				}
			}
		}
	}
	return nil
}

func (ex *Exec) inStack(fr *Frame, fn *ssa.Function) bool {
	for f := fr; f != nil; f = f.caller {
		if f.fn == fn {
			return true
		}
	}
	return false
}

func hasLoops(fn *ssa.Function) bool {
	for _, b := range fn.Blocks {
		for _, s := range b.Succs {
			if s.Dominates(b) {
				return true
			}
		}
	}
	return false
}

func (ex *Exec) callFunc(fr *Frame, callee *ssa.Function, binds []Val, args []Val, site ssa.Instruction, st *State, k CallCont) {
	vc := ex.vc
	name := vc.prog.funcName(callee)
	if m, ok := externModels[name]; ok {
		vc.usedExt[name] = true
		m(ex, fr, callee, args, st, k)
		return
	}
	if ex.chiStatic(fr, callee, args, st, k) {
		return
	}
	if pureLib[name] || (vc.prog.contracts.Funcs[name] == nil && vc.prog.inPurePkg(callee)) {
		ex.pureLibCall(name, callee, args, st, k)
		return
	}
	if sd := vc.prog.sinkFor(callee); sd != nil && vc.prog.contracts.Funcs[name] == nil {
		ex.sinkCall(fr, sd, name, callee, args, st, k)
		return
	}
	// bun's query builder: every other *SelectQuery method that returns a *SelectQuery returns its receiver
	// (what it adds to the SQL text is not modelled here; see the taint contracts for C20)
	if strings.HasPrefix(name, "(*github.com/uptrace/bun.SelectQuery).") && callee.Signature.Results().Len() == 1 &&
		types.TypeString(callee.Signature.Results().At(0).Type(), nil) == "*github.com/uptrace/bun.SelectQuery" && len(args) > 0 {
		if c := vc.prog.contracts.Funcs[name]; c == nil {
			vc.usedExt["bun builder methods return their receiver: "+name] = true
			k(st, tv(ex.toTerm(st, args[0], nil)), false)
			return
		}
	}
	c := vc.prog.contracts.Funcs[name]
	if c != nil && !c.Inline && !(fr.top && callee == fr.fn && false) {
		ex.applyContract(fr, c, callee, callee.Signature, args, site, st, k, name)
		return
	}
	if callee.Blocks != nil && vc.prog.inRepoFn(callee) && fr.depth < 10 && !ex.inStack(fr, callee) {
		if !hasLoops(callee) || (c != nil && c.Inline) {
			ex.inline(fr, callee, binds, args, c, st, k)
			return
		}
		if c == nil && fr.depth < 3 && vc.prog.pinnedFuncs != nil && !vc.prog.pinnedFuncs[name] && fnPkg(callee) == fnPkg(fr.fn) && len(callee.Blocks) <= 40 {
			// a function of the same package that did not exist when the contracts were pinned, with a loop and no contract
			// (typically a few statements extracted from its caller): executed in place, its loops cut without invariant
			// (what they write is forgotten). Functions that existed then keep their treatment.
			vc.note("call of %s at %s: helper added after the contracts were pinned, with a loop and no contract: inlined, its loops cut without invariant", name, ex.where())
			ex.inline(fr, callee, binds, args, nil, st, k)
			return
		}
		vc.note("call of %s at %s: callee has loops and no contract: havoc", name, ex.where())
	} else if callee.Blocks != nil && vc.prog.inRepoFn(callee) {
		vc.note("call of %s at %s: recursion or depth limit: havoc", name, ex.where())
	}
	ex.havocCall(fr, callee, callee.Signature, args, vc.prog.inRepoFn(callee) || len(binds) > 0, st, k)
}

func (ex *Exec) inline(fr *Frame, callee *ssa.Function, binds []Val, args []Val, c *FuncContract, st *State, k CallCont) {
	nf := ex.newFrame(callee, fr.depth+1, fr)
	nf.params = args
	nf.free = binds
	nf.contract = c
	nf.oldState = st.clone()
	if c != nil && (len(c.Requires) > 0 || len(c.Updates) > 0) {
		ex.vc.usedCon[c.Name] = true
	}
	if c != nil && len(c.Requires) > 0 {
		env := ex.newEnv(st, nil, fnPkg(callee), nf)
		ex.bindParams(env, nf)
		for _, r := range c.Requires {
			if isImplements(r.Expr) {
				continue
			}
			if len(r.Scope) > 0 && ex.inScope(fr, r.Scope) == r.Outside {
				continue
			}
			env.goal = true
			g := env.Bool(r.Expr)
			env.goal = false
			if len(env.errs) > 0 {
				ex.vc.fatalf("contract of %s, requires %q: %s", c.Name, r.Text, strings.Join(env.errs, "; "))
				return
			}
			ex.vc.curProps = r.Props
			ex.obligationFull(fr, st, "call-requires", fmt.Sprintf("%s requires %s", shortName(c.Name), r.Text), g, false, fmt.Sprintf("%s.%d", shortName(c.Name), r.Ordinal), env.ground)
			ex.vc.curProps = nil
		}
	}
	if len(callee.Blocks) == 0 {
		k(st, Val{}, false)
		return
	}
	saved := ex.cur
	prev := ex.vc.curFrame
	ex.vc.curFrame = nf
	ex.run(nf, callee.Blocks[0], 0, nil, st, func(st2 *State, rets []Val, panicked bool) {
		ex.cur = saved
		ex.vc.curFrame = fr
		if panicked {
			k(st2, Val{}, true)
			ex.vc.curFrame = nf
			return
		}
		var res Val
		switch len(rets) {
		case 0:
			res = Val{K: VNone}
		case 1:
			res = rets[0]
		default:
			res = Val{K: VTuple, Tup: rets}
		}
		if c != nil && len(c.Updates) > 0 {
			env := ex.newEnv(st2, nf.oldState, fnPkg(callee), nf)
			ex.bindParams(env, nf)
			ex.bindResults(env, callee.Signature, callee, res)
			ex.applyUpdates(st2, c, env)
		}
		k(st2, res, false)
		ex.vc.curFrame = nf
	})
	ex.vc.curFrame = prev
}

func (ex *Exec) freshOfType(st *State, t types.Type, what string) Val {
	vc := ex.vc
	v := tv(vc.fresh(what, vc.sorts.SortOf(t)))
	ex.assumeTypeInv(st, v, t)
	return v
}

// bumpAlloc: after a call whose body is not seen, the allocation frontier is somewhere at or above where it was, and the
// references the call returned designate objects that exist by then (so an object allocated later is a different one).
func (ex *Exec) bumpAlloc(st *State, res Val) {
	vc := ex.vc
	if st.allocTop.S == "" {
		return
	}
	nt := vc.fresh("alloc_call", SInt)
	st.assume(app(">=", nt.S, st.allocTop.S))
	st.allocTop = nt
	var vals []Val
	switch res.K {
	case VTuple:
		vals = res.Tup
	case VTerm:
		vals = []Val{res}
	}
	for _, v := range vals {
		if v.K == VTerm && v.T.Sort == SRef {
			st.assume(app("<=", v.T.S, nt.S))
		}
	}
}

func (ex *Exec) resultVal(st *State, sig *types.Signature, what string) Val {
	res := sig.Results()
	switch res.Len() {
	case 0:
		return Val{K: VNone}
	case 1:
		return ex.freshOfType(st, res.At(0).Type(), what)
	}
	var tup []Val
	for i := 0; i < res.Len(); i++ {
		tup = append(tup, ex.freshOfType(st, res.At(i).Type(), fmt.Sprintf("%s_r%d", what, i)))
	}
	return Val{K: VTuple, Tup: tup}
}

// havocAll forgets every heap component and ghost variable.
func (ex *Exec) havocAll(st *State, ghost bool) {
	var gs *ghostSet
	if ghost {
		gs = &ghostSet{all: true}
	}
	ex.havocAllG(st, gs)
}

// havocAllG forgets every heap component and the ghost variables in gs.
func (ex *Exec) havocAllG(st *State, gs *ghostSet) {
	vc := ex.vc
	vc.counter++
	st.epoch = vc.counter
	st.heap = map[string]Term{}
	if gs != nil {
		for _, g := range sortedKeys(vc.prog.contracts.Ghosts) {
			if gs.has(g) {
				ex.havocGhost(st, g)
			}
		}
	}
	for c := range st.shared {
		st.cells[c] = tv(vc.fresh("shared_"+c.name, c.sort))
	}
	if st.writes != nil {
		st.writes.all = true
	}
}

func (ex *Exec) havocGhost(st *State, g string) {
	vc := ex.vc
	env := ex.newEnv(st, nil, nil, nil)
	v, ok := env.ghostVal(g, st)
	if !ok || v.T.Sort == "" {
		return
	}
	st.ghost[g] = vc.fresh("ghost_"+g, v.T.Sort)
	if st.writes != nil {
		st.writes.ghost[g] = true
	}
}

func (ex *Exec) havocHeap(st *State, name string) {
	vc := ex.vc
	cur := vc.heapGetByName(st, name)
	if cur.Sort == "" {
		return
	}
	vc.heapSet(st, name, vc.fresh(name, cur.Sort))
}

// havocCall: a call whose effect is unknown.
func (ex *Exec) havocCall(fr *Frame, callee *ssa.Function, sig *types.Signature, args []Val, wide bool, st *State, k CallCont) {
	vc := ex.vc
	st.backForget(args)
	name := "dynamic"
	if callee != nil {
		name = vc.prog.funcName(callee)
	}
	if wide {
		gs := &ghostSet{all: true}
		if callee != nil {
			gs = vc.prog.mayModifyGhosts(callee)
		}
		if gs.all {
			vc.note("havoc-all call %s at %s (heap and all ghost state)", name, ex.where())
		} else {
			vc.note("havoc-all call %s at %s (heap; ghost state it can reach: %v)", name, ex.where(), sortedKeys(gs.set))
		}
		ex.havocAllG(st, gs)
	} else {
		closure := false
		for _, a := range args {
			if a.K == VClosure && len(a.Bind) > 0 {
				closure = true
			}
		}
		if closure {
			vc.note("closure passed to library function %s at %s: havoc-all", name, ex.where())
			ex.havocAll(st, true)
		} else {
			vc.usedExt[name+" (no contract: result unconstrained, objects passed by pointer havocked)"] = true
			for i, a := range args {
				var at types.Type
				if sig != nil {
					if sig.Recv() != nil {
						if i == 0 {
							at = sig.Recv().Type()
						} else if i-1 < sig.Params().Len() {
							at = sig.Params().At(i - 1).Type()
						}
					} else if i < sig.Params().Len() {
						at = sig.Params().At(i).Type()
					}
				}
				ex.havocReachable(st, a, at)
			}
		}
	}
	k(st, ex.resultVal(st, sig, "res_"+shortName(name)), false)
}

func shortName(n string) string {
	if i := strings.LastIndex(n, "."); i >= 0 {
		n = n[i+1:]
	}
	return sanitize(n)
}

// havocReachable forgets the object directly designated by an argument.
func (ex *Exec) havocReachable(st *State, a Val, t types.Type) {
	vc := ex.vc
	switch a.K {
	case VPtr:
		p := a.P
		switch p.Kind {
		case PCell:
			if isBigInt(types.Unalias(p.Typ)) || isBigRat(types.Unalias(p.Typ)) {
				return // library functions taking *big.Int operands are assumed not to mutate them unless modelled
			}
			ex.store(st, p, tv(vc.fresh("havoc_"+p.Cell.name, vc.sorts.SortOf(p.Typ))))
		case PRef:
			if len(p.Path) == 0 {
				si := vc.sorts.StructInfo(p.SSort)
				for _, f := range si.fields {
					vc.writeField(st, p.Ref, p.SSort, f.name, vc.fresh("havoc_"+f.name, f.sort))
				}
			} else {
				ex.store(st, p, tv(vc.fresh("havoc", vc.sorts.SortOf(p.Typ))))
			}
		case PBox:
			ex.store(st, p, tv(vc.fresh("havoc", vc.sorts.SortOf(p.Typ))))
		}
	case VTerm:
		if t == nil {
			return
		}
		switch u := t.Underlying().(type) {
		case *types.Pointer:
			es := vc.sorts.SortOf(u.Elem())
			if si, ok := vc.sorts.structs[es]; ok && !isBigInt(types.Unalias(u.Elem())) {
				for _, f := range si.fields {
					vc.writeField(st, a.T, es, f.name, vc.fresh("havoc_"+f.name, f.sort))
				}
			}
		case *types.Map:
			dn, ds, vn, vs, d, v := ex.mapHeapTerms(st, u)
			ks, es := vc.sorts.SortOf(u.Key()), vc.sorts.SortOf(u.Elem())
			vc.heapSet(st, dn, Term{app("store", d.S, a.T.S, vc.fresh("havoc_dom", "(Array "+ks+" Bool)").S), ds})
			vc.heapSet(st, vn, Term{app("store", v.S, a.T.S, vc.fresh("havoc_val", "(Array "+ks+" "+es+")").S), vs})
		case *types.Interface:
			// an interface wrapping a pointer to a repo struct: havoc that object
			for _, key := range vc.sorts.anyOrder {
				c := vc.sorts.anyCtors[key]
				if pt, ok := c.typ.Underlying().(*types.Pointer); ok {
					es := vc.sorts.SortOf(pt.Elem())
					if !strings.HasPrefix(a.T.S, "("+c.name+" ") {
						continue
					}
					inner := Term{app(c.sel, a.T.S), SRef}
					if si, ok := vc.sorts.structs[es]; ok && !isBigInt(types.Unalias(pt.Elem())) {
						for _, f := range si.fields {
							vc.writeField(st, inner, es, f.name, vc.fresh("havoc_"+f.name, f.sort))
						}
					} else if c.sort == SRef {
						// pointer to a non-struct object (a boxed local): its content is overwritten
						hn, hs := vc.boxHeap(es)
						h := vc.heapGet(st, hn, hs)
						vc.heapSet(st, hn, Term{app("store", h.S, inner.S, vc.fresh("havoc_box", es).S), hs})
					}
				}
			}
		}
	}
}

// invoke: interface method call.
func (ex *Exec) invoke(fr *Frame, site ssa.Instruction, common *ssa.CallCommon, recv Val, args []Val, st *State, k CallCont) {
	vc := ex.vc
	it := common.Value.Type()
	name := vc.prog.ifaceMethodName(it, common.Method)
	if c := vc.prog.lookupIface(it, common.Method); c != nil {
		all := append([]Val{recv}, args...)
		sig := common.Method.Type().(*types.Signature)
		ex.applyContract(fr, c, nil, sig, all, site, st, k, name)
		return
	}
	if nt, ok := types.Unalias(it).(*types.Named); ok && nt.Obj().Pkg() != nil && vc.prog.contracts.PurePkgs[nt.Obj().Pkg().Path()] {
		// interface of a package declared pure: the method is an uninterpreted function of the receiver and the arguments
		sig := common.Method.Type().(*types.Signature)
		all := append([]Val{recv}, args...)
		ex.pureCall("iface:"+name, sig, append([]types.Type{it}, paramTypes(sig)...), all, st, k)
		return
	}
	if isChiRouterType(it) {
		all := append([]Val{recv}, args...)
		if ex.chiCall(fr, common.Method.Name(), common.Method.Type().(*types.Signature), all, st, k) {
			return
		}
	}
	// closed-world dispatch for small interfaces declared in the repository
	if ex.dispatch(fr, site, common, recv, args, st, k) {
		return
	}
	// error.Error() and friends: pure
	if common.Method.Name() == "Error" || common.Method.Name() == "String" {
		k(st, tv(vc.fresh("str", SStr)), false)
		return
	}
	sig := common.Method.Type().(*types.Signature)
	gs := &ghostSet{set: map[string]bool{}}
	if nt, ok := types.Unalias(it).(*types.Named); ok && nt.Obj().Pkg() != nil && vc.prog.inRepoPath(nt.Obj().Pkg().Path()) {
		ts := vc.prog.ifaceTargets(common)
		if len(ts) == 0 {
			gs.all = true
		}
		for _, t := range ts {
			gs.add(vc.prog.mayModifyGhosts(t))
		}
		vc.note("interface call %s at %s has no iface contract: havoc of the heap and of the ghost state its implementations can reach", name, ex.where())
		ex.havocAllG(st, gs)
	} else {
		// library interface (io.Writer, http.ResponseWriter, context.Context, ...): its implementations are
		// assumed not to call back into the ledger; objects passed by pointer are havocked
		vc.usedExt["library interface method "+name+" (no contract: result unconstrained, no effect on repository state)"] = true
		for i, a := range args {
			var at types.Type
			if i < sig.Params().Len() {
				at = sig.Params().At(i).Type()
			}
			ex.havocReachable(st, a, at)
		}
	}
	k(st, ex.resultVal(st, sig, "res_"+sanitize(common.Method.Name())), false)
}

// applyContract: modular call.
func (ex *Exec) applyContract(fr *Frame, c *FuncContract, callee *ssa.Function, sig *types.Signature, args []Val, site ssa.Instruction, st *State, k CallCont, name string) {
	vc := ex.vc
	vc.usedCon[c.Name] = true
	if !c.Pure {
		st.backForget(args)
	}
	pkg := vc.prog.contracts.pkgOf[c.Name]
	env := ex.newEnv(st, nil, pkg, fr)
	env.calleeFn = callee
	// bind parameters
	var pnames []string
	var ptypes []types.Type
	if callee != nil {
		for _, p := range callee.Params {
			pnames = append(pnames, p.Name())
			ptypes = append(ptypes, p.Type())
		}
	} else if c.Kind == "spec" {
		pnames = c.Params
		for i := 0; i < sig.Params().Len(); i++ {
			ptypes = append(ptypes, sig.Params().At(i).Type())
		}
	} else {
		// iface: receiver first
		pnames = append(pnames, "recv")
		ptypes = append(ptypes, nil)
		for i := 0; i < sig.Params().Len(); i++ {
			n := sig.Params().At(i).Name()
			if n == "" || n == "_" {
				n = fmt.Sprintf("arg%d", i)
			}
			pnames = append(pnames, n)
			ptypes = append(ptypes, sig.Params().At(i).Type())
		}
	}
	for i, a := range args {
		if i >= len(pnames) {
			break
		}
		var t Term
		if a.K == VClosure || (a.K == VPtr && a.P.Kind == PCell && !isBigInt(types.Unalias(a.P.Typ)) && !isBigRat(types.Unalias(a.P.Typ)) && len(a.P.Path) > 0) {
			t = ex.toTerm(st, a, ptypes[i])
		} else {
			t = ex.toTerm(st, a, ptypes[i])
		}
		env.binds[pnames[i]] = TVal{T: t, Ty: ptypes[i]}
		env.binds[fmt.Sprintf("arg%d", i)] = TVal{T: t, Ty: ptypes[i]}
	}
	for _, r := range c.Requires {
		if isImplements(r.Expr) {
			ex.checkImplements(fr, r, args, pnames, st)
			continue
		}
		if len(r.Scope) > 0 && ex.inScope(fr, r.Scope) == r.Outside {
			continue
		}
		env.goal = true
		g := env.Bool(r.Expr)
		env.goal = false
		if len(env.errs) > 0 {
			vc.fatalf("contract of %s, requires %q: %s", c.Name, r.Text, strings.Join(env.errs, "; "))
			return
		}
		vc.curProps = r.Props
		if len(vc.curProps) == 0 && c.Trusted {
			vc.curProps = c.Props
		}
		ex.obligationFull(fr, st, "call-requires", fmt.Sprintf("%s requires %s", shortName(name), r.Text), g, false, fmt.Sprintf("%s.%d", shortName(name), r.Ordinal), env.ground)
		vc.curProps = nil
	}
	pre := st.clone()
	// frame
	if !c.HasMod {
		if ex.argsMayReachHeap(args, ptypes) || len(vc.prog.contracts.Ghosts) > 0 && c.Kind != "func" {
			if ex.argsMayReachHeap(args, ptypes) {
				ex.havocAll(st, false)
			}
		}
	} else if len(c.Modifies) == 1 && c.Modifies[0] == "reachable" {
		// library function: only the objects its arguments designate directly may change
		for i, a := range args {
			var at types.Type
			if i < len(ptypes) {
				at = ptypes[i]
			}
			ex.havocReachable(st, a, at)
		}
	} else {
		ws := ex.resolveModifies(c, env)
		ex.applyHavoc(st, ws)
	}
	res := ex.resultVal(st, sig, "res_"+shortName(name))
	ex.bumpAlloc(st, res)
	post := ex.newEnv(st, pre, pkg, fr)
	post.calleeFn = callee
	for kk, v := range env.binds {
		post.binds[kk] = v
	}
	// in-place slice parameters: the caller's slice has new contents afterwards
	for _, ip := range c.InPlace {
		for i, pn := range pnames {
			if pn != ip || i >= len(args) {
				continue
			}
			oldv := env.binds[ip]
			nv := vc.fresh("inplace_"+ip, oldv.T.Sort)
			if post.oldBinds == nil {
				post.oldBinds = map[string]TVal{}
			}
			post.oldBinds[ip] = oldv
			post.binds[ip] = TVal{T: nv, Ty: oldv.Ty}
			if args[i].Prov != nil {
				ex.store(st, args[i].Prov, tv(nv))
			} else {
				vc.fatalf("in-place callee %s applied to a slice of unknown origin at %s", c.Name, ex.where())
			}
		}
	}
	ex.bindResults(post, sig, callee, res)
	for _, e := range c.Ensures {
		if isImplements(e.Expr) {
			continue
		}
		if strings.Contains(e.Text, "local(") {
			// a clause about the callee's own locals at its return: proved on the callee, says nothing to a caller
			continue
		}
		f := post.Bool(e.Expr)
		if len(post.errs) > 0 {
			vc.fatalf("contract of %s, ensures %q: %s", c.Name, e.Text, strings.Join(post.errs, "; "))
			return
		}
		st.assume(f)
	}
	for _, e := range c.Ensures {
		if ic, ok := e.Expr.(ECall); ok && ic.Fun == "implements" && len(ic.Args) == 2 {
			if id, ok := ic.Args[0].(EIdent); ok {
				if sn, ok := ic.Args[1].(EIdent); ok {
					if tvv, ok := post.binds[id.Name]; ok {
						if vc.funcSpecs == nil {
							vc.funcSpecs = map[string]*FuncContract{}
						}
						if sp := vc.prog.contracts.Specs[sn.Name]; sp != nil {
							vc.funcSpecs[tvv.T.S] = sp
						} else {
							vc.fatalf("unknown closure spec %s", sn.Name)
						}
					}
				}
			}
		}
	}
	if len(c.Updates) > 0 {
		// updates are evaluated in the pre-call ghost state
		uenv := ex.newEnv(pre, pre, pkg, fr)
		for kk, v := range post.binds {
			uenv.binds[kk] = v
		}
		for _, u := range c.Updates {
			v := uenv.tr(u.Expr)
			if len(uenv.errs) > 0 {
				vc.fatalf("ghost update of %s: %s", c.Name, strings.Join(uenv.errs, "; "))
				return
			}
			st.ghost[u.Ghost] = ex.nameLarge(st, "ghost_"+u.Ghost, v.T)
			if st.writes != nil {
				st.writes.ghost[u.Ghost] = true
			}
			ex.protectedWrite(fr, st, u.Ghost, c.Name)
		}
	}
	k(st, res, false)
}

// protectedWrite: a ghost variable protected by a monitor with interference is written. When the path has taken that
// monitor's mutex before (the function works under this monitor) but does not hold it at this point, the write happens
// outside the critical section: other threads see the state before it (a waiter queued after the holder's release has
// looked at the queue is never woken).
func (ex *Exec) protectedWrite(fr *Frame, st *State, ghost, callee string) {
	vc := ex.vc
	for _, mi := range st.monInst {
		md := mi.md
		if md.Rely == nil {
			continue
		}
		prot := false
		for _, pr := range md.Protects {
			prot = prot || pr == "ghost "+ghost || pr == ghost
		}
		if !prot {
			continue
		}
		id := md.Type + "." + md.Field + "@" + mi.self.S
		held := false
		for _, h := range st.held {
			held = held || h == id
		}
		if held {
			continue
		}
		vc.curProps = md.Props
		ex.obligationFull(fr, st, "protocol", fmt.Sprintf("%s changes %s, which %s.%s protects, while the mutex taken earlier on this path is not held", shortName(callee), ghost, md.Type, md.Field), "false", false, fmt.Sprintf("monitor.%s.unlocked-write", md.Field), false)
		vc.curProps = nil
	}
}

func isImplements(e Expr) bool {
	c, ok := e.(ECall)
	return ok && c.Fun == "implements"
}

func (ex *Exec) argsMayReachHeap(args []Val, ptypes []types.Type) bool {
	vc := ex.vc
	for i, a := range args {
		if a.K == VClosure && len(a.Bind) > 0 {
			return true
		}
		if a.K == VPtr {
			if isBigInt(types.Unalias(a.P.Typ)) || isBigRat(types.Unalias(a.P.Typ)) {
				continue
			}
			return true
		}
		if i < len(ptypes) && ptypes[i] != nil {
			if vc.typeHasRefs(ptypes[i], 0) {
				return true
			}
		}
	}
	return false
}

func (vc *VC) typeHasRefs(t types.Type, depth int) bool {
	if depth > 6 {
		return true
	}
	t = types.Unalias(t)
	if isBigInt(t) || isBigRat(t) {
		return false
	}
	switch u := t.Underlying().(type) {
	case *types.Basic:
		return false
	case *types.Pointer:
		e := types.Unalias(u.Elem())
		if isBigInt(e) || isBigRat(e) {
			return false
		}
		return true
	case *types.Map, *types.Chan, *types.Signature:
		return true
	case *types.Interface:
		// context.Context and error are treated as immutable
		ts := t.String()
		if ts == "context.Context" || ts == "error" {
			return false
		}
		return true
	case *types.Slice:
		return vc.typeHasRefs(u.Elem(), depth+1)
	case *types.Array:
		return vc.typeHasRefs(u.Elem(), depth+1)
	case *types.Struct:
		if n, ok := t.(*types.Named); ok && !vc.sorts.inRepo(n.Obj().Pkg()) {
			return false
		}
		for i := 0; i < u.NumFields(); i++ {
			if vc.typeHasRefs(u.Field(i).Type(), depth+1) {
				return true
			}
		}
	}
	return false
}

func (ex *Exec) bindResults(env *Env, sig *types.Signature, callee *ssa.Function, res Val) {
	rs := sig.Results()
	var vals []Val
	switch res.K {
	case VTuple:
		vals = res.Tup
	case VNone:
	default:
		vals = []Val{res}
	}
	for i := 0; i < rs.Len() && i < len(vals); i++ {
		t := ex.toTerm(env.st, vals[i], rs.At(i).Type())
		tvv := TVal{T: t, Ty: rs.At(i).Type()}
		env.binds[fmt.Sprintf("ret%d", i)] = tvv
		if n := rs.At(i).Name(); n != "" && n != "_" {
			env.binds[n] = tvv
		}
		if i == rs.Len()-1 && rs.At(i).Type().String() == "error" {
			env.binds["err"] = tvv
		}
		if rs.Len() == 1 {
			env.binds["ret"] = tvv
		}
	}
}

// modifies ---------------------------------------------------------------------

func (ex *Exec) resolveModifies(c *FuncContract, env *Env) *WriteSet {
	vc := ex.vc
	ws := newWriteSet()
	for _, m := range c.Modifies {
		switch {
		case m == "all":
			ws.all = true
		case strings.HasPrefix(m, "ghost "):
			ws.ghost[strings.TrimSpace(m[6:])] = true
		case strings.HasPrefix(m, "heap:"):
			ws.heaps[m[5:]] = true
		case strings.HasPrefix(m, "map["):
			t, _ := env.resolveType(m)
			if mt, ok := t.(*types.Map); ok {
				dn, vn := vc.sorts.mapHeaps(mt)
				ws.heaps[dn], ws.heaps[vn] = true, true
			} else {
				vc.fatalf("modifies %s: unknown map type", m)
			}
		case strings.HasPrefix(m, "box "):
			_, s := env.resolveType(strings.TrimSpace(m[4:]))
			hn, _ := vc.boxHeap(s)
			ws.heaps[hn] = true
		case m == "chan":
			ws.heaps["CH_closed"] = true
		case strings.HasPrefix(m, "pkg:"):
			// every field of every struct declared in that package (also instantiations of its generic types)
			ws.prefixes = append(ws.prefixes, "H_S_"+sanitize(strings.TrimSpace(m[4:]))+"_")
		default:
			// Type.field
			i := strings.LastIndex(m, ".")
			if i < 0 {
				vc.fatalf("modifies %q not understood", m)
				continue
			}
			t, s := env.resolveType(m[:i])
			if t == nil {
				vc.fatalf("modifies %q: unknown type", m)
				continue
			}
			if m[i+1:] == "*" {
				for _, f := range vc.sorts.StructInfo(s).fields {
					ws.heaps["H_"+s+"_"+f.name] = true
				}
			} else {
				ws.heaps["H_"+s+"_"+m[i+1:]] = true
			}
		}
	}
	if !ws.all && c.HasMod {
		for _, h := range vc.newFieldHeaps() {
			if !ws.heaps[h] {
				ws.heaps[h] = true
				vc.note("field behind %s was added after the contracts were pinned: %s may write it (no contract speaks about it)", h, c.Name)
			}
		}
	}
	return ws
}

func (ex *Exec) applyHavoc(st *State, ws *WriteSet) {
	vc := ex.vc
	if ws.all {
		ex.havocAll(st, true)
		return
	}
	for _, h := range sortedKeys(ws.heaps) {
		ex.havocHeap(st, h)
	}
	for _, pre := range ws.prefixes {
		for _, h := range sortedKeys(st.heap) {
			if strings.HasPrefix(h, pre) {
				ex.havocHeap(st, h)
			}
		}
		vc.counter++
		if st.prefixEpoch == nil {
			st.prefixEpoch = map[string]int{}
		}
		st.prefixEpoch[pre] = vc.counter
	}
	for _, g := range sortedKeys(ws.ghost) {
		ex.havocGhost(st, g)
	}
}

// builtins ---------------------------------------------------------------------

func (ex *Exec) builtin(fr *Frame, common *ssa.CallCommon, b *ssa.Builtin, argVals []Val, st *State, k CallCont) {
	vc := ex.vc
	args := common.Args
	arg := func(i int) Val { return argVals[i] }
	switch b.Name() {
	case "len":
		a := ex.toTerm(st, arg(0), args[0].Type())
		switch u := args[0].Type().Underlying().(type) {
		case *types.Map:
			name := "map_len"
			_, _, _, _, d, _ := ex.mapHeapTerms(st, u)
			ks := vc.sorts.SortOf(u.Key())
			fn := name + "_" + sanitize(ks)
			vc.declareFun(fn, []string{"(Array " + ks + " Bool)"}, SInt)
			t := app(fn, app("select", d.S, a.S))
			st.assume(app(">=", t, "0"))
			k(st, tv(Term{ite(app("=", a.S, "0"), "0", t), SInt}), false)
		case *types.Chan:
			k(st, tv(vc.fresh("chanlen", SInt)), false)
		default:
			if a.Sort == SStr {
				k(st, tv(Term{app("str_len", a.S), SInt}), false)
			} else {
				if lit, ok := vc.seqLits[a.S]; ok {
					k(st, tv(Term{fmt.Sprint(len(lit)), SInt}), false)
				} else {
					k(st, tv(Term{app("sq_len_"+a.Sort, a.S), SInt}), false)
				}
			}
		}
	case "cap":
		a := ex.toTerm(st, arg(0), args[0].Type())
		c := vc.fresh("cap", SInt)
		if strings.HasPrefix(a.Sort, "Seq_") {
			st.assume(app(">=", c.S, app("sq_len_"+a.Sort, a.S)))
		}
		k(st, tv(c), false)
	case "append":
		s := ex.toTerm(st, arg(0), args[0].Type())
		k0 := k
		back := arg(0).Back
		k = func(st *State, r Val, p bool) {
			r.Back = back
			k0(st, r, p)
		}
		if len(args) == 1 {
			k(st, tv(s), false)
			return
		}
		tval := arg(1)
		var t Term
		if bt, ok := args[1].Type().Underlying().(*types.Basic); ok && bt.Info()&types.IsString != 0 {
			t = ex.convert(st, tval, args[1].Type(), args[0].Type())
		} else {
			t = ex.toTerm(st, tval, args[1].Type())
		}
		if lit, ok := vc.seqLits[t.S]; ok {
			r := s
			for _, e := range lit {
				r = Term{app("sq_snoc_"+s.Sort, r.S, e.S), s.Sort}
			}
			if l0, ok := vc.seqLits[s.S]; ok {
				r = vc.seqLit(s.Sort, append(append([]Term{}, l0...), lit...))
			}
			k(st, tv(r), false)
			return
		}
		k(st, tv(Term{app("sq_concat_"+s.Sort, s.S, t.S), s.Sort}), false)
	case "copy":
		// copy(dst, src): dst gets src's prefix. dst must be writable through its provenance.
		dst := arg(0)
		src := ex.toTerm(st, arg(1), args[1].Type())
		d := ex.toTerm(st, dst, args[0].Type())
		S := d.Sort
		n := vc.fresh("copied", SInt)
		ld, ls := app("sq_len_"+S, d.S), app("sq_len_"+S, src.S)
		st.assume(app("=", n.S, ite(app("<=", ld, ls), ld, ls)))
		nd := Term{app("sq_concat_"+S, app("sq_sub_"+S, src.S, "0", n.S), app("sq_sub_"+S, d.S, n.S, ld)), S}
		if dst.Prov != nil {
			ex.store(st, dst.Prov, tv(nd))
		} else {
			vc.fatalf("copy into a slice of unknown origin at %s", ex.where())
		}
		k(st, tv(n), false)
	case "delete":
		m := ex.toTerm(st, arg(0), args[0].Type())
		mt := args[0].Type().Underlying().(*types.Map)
		kk := ex.toTerm(st, arg(1), mt.Key())
		dn, ds, _, _, d, _ := ex.mapHeapTerms(st, mt)
		vc.heapSet(st, dn, Term{app("store", d.S, m.S, app("store", app("select", d.S, m.S), kk.S, "false")), ds})
		k(st, Val{}, false)
	case "close":
		c := ex.toTerm(st, arg(0), args[0].Type())
		ex.closeChan(fr, st, c)
		k(st, Val{}, false)
	case "ssa:wrapnilchk":
		k(st, arg(0), false)
	case "ssa:deferstack":
		k(st, Val{K: VNone}, false)
	case "print", "println":
		k(st, Val{}, false)
	case "min", "max":
		a := ex.toTerm(st, arg(0), nil)
		bb := ex.toTerm(st, arg(1), nil)
		op := "<="
		if b.Name() == "max" {
			op = ">="
		}
		k(st, tv(Term{ite(app(op, a.S, bb.S), a.S, bb.S), a.Sort}), false)
	case "recover":
		k(st, tv(Term{"any_nil", SAny}), false)
	default:
		vc.fatalf("unsupported builtin %s at %s", b.Name(), ex.where())
	}
}

// dispatch forks over the concrete types implementing a repository interface
// and inlines the method body of each (closed-world assumption, listed).
func (ex *Exec) dispatch(fr *Frame, site ssa.Instruction, common *ssa.CallCommon, recv Val, args []Val, st *State, k CallCont) bool {
	vc := ex.vc
	it := common.Value.Type()
	nt, ok := types.Unalias(it).(*types.Named)
	if !ok || !vc.sorts.inRepo(nt.Obj().Pkg()) {
		return false
	}
	iface, ok := nt.Underlying().(*types.Interface)
	if !ok {
		return false
	}
	impls := vc.prog.implementers(iface)
	if len(impls) == 0 || len(impls) > 16 {
		return false
	}
	type target struct {
		t  types.Type
		fn *ssa.Function
	}
	var ts []target
	for _, t := range impls {
		ms := vc.prog.ssaProg.MethodSets.MethodSet(t)
		sel := ms.Lookup(common.Method.Pkg(), common.Method.Name())
		if sel == nil {
			return false
		}
		fn := vc.prog.ssaProg.MethodValue(sel)
		if fn == nil {
			return false
		}
		ts = append(ts, target{t, fn})
	}
	rt := ex.toTerm(st, recv, it)
	vc.usedExt["closed world for interface "+nt.Obj().Name()+": its dynamic types are the repository types implementing it"] = true
	cur := ex.cur
	for _, tg := range ts {
		c := vc.sorts.AnyCtor(tg.t)
		test := app("(_ is "+c.name+")", rt.S)
		if st.known(test) == -1 {
			continue
		}
		st2 := st.clone()
		st2.assume(test)
		st2.note("%s: dynamic type %s", ex.where(), types.TypeString(tg.t, func(p *types.Package) string { return p.Name() }))
		payload := tv(Term{app(c.sel, rt.S), c.sort})
		ex.callFunc(fr, tg.fn, nil, append([]Val{payload}, args...), site, st2, k)
		ex.cur = cur
		if st.known(test) == 1 {
			return true
		}
	}
	return true
}

func (ex *Exec) inScope(fr *Frame, scope []string) bool {
	for f := fr; f != nil; f = f.caller {
		n := ex.vc.prog.funcName(f.fn)
		for _, sc := range scope {
			if strings.Contains(n, sc) {
				return true
			}
		}
	}
	return false
}
