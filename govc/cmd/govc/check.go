package main

// Property-level check: select the contracts tagged with a property, verify
// them, apply vacuity guards, write evidence, print VIOLATION lines.

import (
	"encoding/json"
	"flag"
	"fmt"
	"os"
	"path/filepath"
	"regexp"
	"sort"
	"strconv"
	"strings"
	"time"
)

var reSiteOrd = regexp.MustCompile(`@\d+`)

type PropConfig struct {
	ID          string   `json:"id"`
	Packages    []string `json:"packages"`
	RepoSubdir  string   `json:"repo_subdir"`
	Level       string   `json:"level"`
	Claim       string   `json:"claim"`
	NotDecided  []string `json:"not_decided"`
	Assumptions []string `json:"assumptions"`
	Sweep       []string `json:"sweep"` // package names: every function is verified, only clauses tagged with the property are kept
}

type KnownFinding struct {
	Kind       string // finding | fixed
	Property   string
	Obligation string
	What       string
}

func loadKnownFindings(path string) []KnownFinding {
	data, err := os.ReadFile(path)
	if err != nil {
		return nil
	}
	var out []KnownFinding
	for _, l := range strings.Split(string(data), "\n") {
		l = strings.TrimSpace(l)
		if l == "" || strings.HasPrefix(l, "#") {
			continue
		}
		kf := KnownFinding{}
		switch {
		case strings.HasPrefix(l, "finding:"):
			kf.Kind = "finding"
			l = strings.TrimSpace(l[8:])
		case strings.HasPrefix(l, "fixed:"):
			kf.Kind = "fixed"
			l = strings.TrimSpace(l[6:])
		default:
			continue
		}
		for _, f := range strings.Fields(l) {
			if strings.HasPrefix(f, "property=") {
				kf.Property = f[9:]
			} else if strings.HasPrefix(f, "obligation=") {
				kf.Obligation = f[11:]
			}
		}
		if i := strings.Index(l, "what="); i >= 0 {
			kf.What = strings.Trim(l[i+5:], "\"")
		}
		out = append(out, kf)
	}
	return out
}

func checkMain(args []string) {
	fs := flag.NewFlagSet("check", flag.ExitOnError)
	repo := fs.String("repo", "/repo", "repository root")
	tier := fs.String("tier", "quick", "quick|thorough")
	verif := fs.String("verif", "/verif", "verif root")
	verbose := fs.Bool("v", false, "verbose")
	pin := fs.Bool("pin", false, "rewrite the obligation pins for this property")
	evDir := fs.String("evidence-dir", "", "write evidence and replays here instead of <verif>/evidence (selftest runs)")
	if len(args) == 0 {
		fmt.Fprintln(os.Stderr, "usage: govc check <property> [--tier quick|thorough]")
		os.Exit(2)
	}
	prop := args[0]
	fs.Parse(args[1:])
	if t := os.Getenv("VERIF_TIER"); t != "" && !flagSet(fs, "tier") {
		*tier = t
	}
	seed := 0
	if s := os.Getenv("VERIF_SEED"); s != "" {
		seed, _ = strconv.Atoi(s)
	}
	start := time.Now()
	cfgs := map[string]*PropConfig{}
	data, err := os.ReadFile(filepath.Join(*verif, "contracts", "properties.json"))
	if err != nil {
		fmt.Fprintln(os.Stderr, "cannot read property config:", err)
		os.Exit(2)
	}
	var list []*PropConfig
	if err := json.Unmarshal(data, &list); err != nil {
		fmt.Fprintln(os.Stderr, "bad property config:", err)
		os.Exit(2)
	}
	for _, c := range list {
		cfgs[c.ID] = c
	}
	cfg := cfgs[prop]
	if cfg == nil {
		fmt.Fprintln(os.Stderr, "unknown property", prop)
		os.Exit(2)
	}
	thorough := *tier == "thorough"
	timeout := 10
	if thorough {
		timeout = 30
	}
	prog, err := LoadProgram(filepath.Join(*repo, cfg.RepoSubdir), cfg.Packages, filepath.Join(*verif, "contracts", "extern"))
	violations := 0
	replayDir := filepath.Join(*verif, "replays", prop)
	if *evDir != "" {
		replayDir = filepath.Join(*evDir, "replays", prop)
	}
	os.RemoveAll(replayDir)
	os.MkdirAll(replayDir, 0o755)
	ev := &Evidence{PropertyID: prop, Tier: *tier, Seed: seed, Level: cfg.Level, dir: *evDir}
	writeReplay := func(name string, content map[string]any) string {
		p := filepath.Join(replayDir, sanitize(name)+".json")
		b, _ := json.MarshalIndent(content, "", " ")
		os.WriteFile(p, b, 0o644)
		return p
	}
	if err != nil {
		p := writeReplay("load", map[string]any{"obligation": "load", "error": err.Error()})
		fmt.Printf("VIOLATION property=%s replay=%s no-failing-input-found\n", prop, p)
		fmt.Println("  the repository does not load with -tags=verif:", err)
		ev.finish(*verif, start, 1, "load failed: "+err.Error())
		os.Exit(1)
	}
	prog.curProp = prop
	loadS := time.Since(start).Seconds()
	{
		pinned := map[string][]string{}
		if b, err := os.ReadFile(filepath.Join(*verif, "contracts", "pins.json")); err == nil {
			json.Unmarshal(b, &pinned)
		}
		prog.localPinList = pinned["_locals"]
		if pl, ok := pinned["_loops"]; ok {
			prog.pinnedLoops = map[string][]pinnedLoop{}
			for _, e := range pl {
				parts := strings.SplitN(e, "|", 3)
				if len(parts) == 3 {
					var o int
					fmt.Sscanf(parts[1], "%d", &o)
					prog.pinnedLoops[parts[0]] = append(prog.pinnedLoops[parts[0]], pinnedLoop{ord: o, text: parts[2]})
				}
			}
		}
		if pf, ok := pinned["_funcs"]; ok {
			prog.pinnedFuncs = map[string]bool{}
			for _, f := range pf {
				prog.pinnedFuncs[f] = true
			}
		}
		if pf, ok := pinned["_fields"]; ok {
			prog.pinnedFields = map[string]bool{}
			for _, f := range pf {
				prog.pinnedFields[f] = true
			}
		}
	}
	known := loadKnownFindings(filepath.Join(*verif, "known_findings.txt"))
	// select functions
	selected := map[string]bool{}
	var order []string
	for _, name := range prog.contracts.Order {
		c := prog.contracts.Funcs[name]
		if c.Kind != "func" || c.Trusted || (c.Inline && len(c.Ensures) == 0) {
			continue
		}
		for _, p := range c.Props {
			if p == prop && !selected[name] {
				selected[name] = true
				order = append(order, name)
			}
		}
		if hasProp(c.AlsoFor, prop) && !selected[name] {
			selected[name] = true
			order = append(order, name)
		}
	}
	var results []*FuncResult
	done := map[string]bool{}
	queue := append([]string{}, order...)
	// trusted contracts with `bodyrules <prop>`: the body is executed against a contract that keeps the preconditions only
	for _, name := range prog.contracts.Order {
		c := prog.contracts.Funcs[name]
		if c.Kind != "func" || !c.Trusted || !hasProp(c.BodyRules, prop) || prog.funcs[name] == nil {
			continue
		}
		shadow := emptyContract(name)
		shadow.Requires = c.Requires
		shadow.Assumes = c.Assumes
		shadow.File, shadow.Line = c.File, c.Line
		r := prog.verifyFunc(name, shadow)
		r.TaggedOnly = true
		r.Name = name + " (body rules)"
		results = append(results, r)
	}
	for len(queue) > 0 {
		name := queue[0]
		queue = queue[1:]
		if done[name] {
			continue
		}
		done[name] = true
		c := prog.contracts.Funcs[name]
		r := prog.verifyFunc(name, c)
		r.TaggedOnly = c != nil && hasProp(c.AlsoFor, prop) && !hasProp(c.Props, prop)
		results = append(results, r)
		// untagged callee contracts are verified here as well
		if r.VC != nil {
			for cn := range r.VC.usedCon {
				cc := prog.contracts.Funcs[cn]
				if cc != nil && cc.Kind == "func" && !cc.Trusted && len(cc.Props) == 0 && !onlyTaggedClaims(cc) && !done[cn] && !(cc.Inline && len(cc.Ensures) == 0) {
					queue = append(queue, cn)
				}
			}
		}
	}
	// declarations about types and globals, implementers of interface contracts, package sweeps (decls.go)
	var declProblems []string
	results, declProblems = prog.declResults(prop, cfg, results, done)
	seenSpec := map[string]bool{}
	for i := 0; i < len(results); i++ {
		for _, sc := range results[i].SpecChecks {
			key := prog.funcName(sc.fn) + "@" + sc.spec.Name
			if seenSpec[key] {
				continue
			}
			seenSpec[key] = true
			results = append(results, prog.verifySpec(sc))
		}
	}
	// lemmas
	for _, l := range prog.contracts.Lemmas {
		for _, p := range l.Props {
			if p == prop {
				results = append(results, prog.verifyLemma(l))
			}
		}
	}
	// only this property's obligations are discharged
	for _, r := range results {
		var keep []*Obligation
		for _, o := range r.Obligations {
			ok := len(o.Props) == 0 && !r.TaggedOnly
			if len(o.Props) == 0 && r.TaggedOnly && (o.Kind == "inv-entry" || o.Kind == "inv-preserved") {
				// an untagged loop invariant is assumed after the loop on every path: what is proved from it
				// for this property needs it established here too
				ok = true
			}
			for _, p := range o.Props {
				if p == prop {
					ok = true
				}
			}
			if ok {
				keep = append(keep, o)
			}
		}
		r.Obligations = keep
	}
	workDir := filepath.Join(*verif, "work", prop)
	if *evDir != "" {
		workDir = filepath.Join(*evDir, "work", prop)
	}
	os.RemoveAll(workDir)
	solveStart := time.Now()
	discharge(results, workDir, timeout, thorough, 16)
	// cover checks
	covers := runCovers(results, workDir, timeout)
	solveS := time.Since(solveStart).Seconds()

	// aggregate by obligation name
	type agg struct {
		name    string
		kind    string
		clause  string
		fn      string
		queries int
		ok      bool
		solver  map[string]int
		ms      int64
		failed  []*Obligation
		ground  bool
	}
	aggs := map[string]*agg{}
	var aggOrder []string
	forProp := func(o *Obligation) bool {
		if len(o.Props) == 0 {
			return true
		}
		for _, p := range o.Props {
			if p == prop {
				return true
			}
		}
		return false
	}
	for _, r := range results {
		for _, o := range r.Obligations {
			if !forProp(o) {
				continue
			}
			a := aggs[o.Name]
			if a == nil {
				a = &agg{name: o.Name, kind: o.Kind, clause: o.Clause, fn: o.Func, ok: true, solver: map[string]int{}, ground: o.Ground}
				aggs[o.Name] = a
				aggOrder = append(aggOrder, o.Name)
			}
			a.queries++
			a.ms += o.Ms
			if o.Status == "unsat" {
				a.solver[o.Solver]++
			} else {
				a.ok = false
				a.failed = append(a.failed, o)
			}
		}
	}
	isKnown := func(obl string) *KnownFinding {
		for i := range known {
			if known[i].Kind == "finding" && known[i].Property == prop && known[i].Obligation == obl {
				return &known[i]
			}
		}
		return nil
	}
	knownHit := []string{}
	report := func(obl, why string, content map[string]any) {
		if kf := isKnown(obl); kf != nil {
			fmt.Printf("KNOWN-FINDING: property=%s %s %s\n", prop, obl, kf.What)
			knownHit = append(knownHit, obl)
			return
		}
		content["obligation"] = obl
		content["property"] = prop
		content["why"] = why
		p := writeReplay(obl, content)
		fmt.Printf("VIOLATION property=%s replay=%s no-failing-input-found\n", prop, p)
		fmt.Printf("  obligation %s: %s\n", obl, why)
		violations++
	}
	// generation failures
	for _, r := range results {
		for _, f := range r.Fatal {
			report(r.Name+"#generate", "obligations could not be generated: "+f, map[string]any{"function": r.Name})
		}
	}
	// a contract (also a trusted one) whose function does not exist is out of date: it would silently not apply
	for _, name := range prog.contracts.Order {
		c := prog.contracts.Funcs[name]
		if (c.Kind == "func" || c.Kind == "extern") && prog.contracts.pkgOf[name] != nil && prog.funcs[name] == nil && prog.libFunc(name) == nil {
			report("contracts#unresolved#"+sanitize(name), "the contract names a function that does not exist in the loaded packages (contract out of date): "+name, map[string]any{"contract": name, "file": c.File})
		}
	}
	for _, dp := range declProblems {
		report("decls#"+sanitize(truncate(dp, 80)), dp, map[string]any{})
	}
	for _, e := range prog.contracts.Errors {
		report("contracts#parse", "contract file does not parse: "+e, map[string]any{})
	}
	if len(order) == 0 && len(results) == 0 {
		report("contracts#none", "no contract is tagged with this property (vacuous check)", map[string]any{})
	}
	discharged := 0
	for _, n := range aggOrder {
		a := aggs[n]
		if a.ok {
			discharged++
			continue
		}
		o := a.failed[0]
		content := map[string]any{
			"function": a.fn, "kind": a.kind, "clause": a.clause, "where": o.Where, "path": o.Trace,
			"smt_file": o.File, "solver_status": o.Status, "solver": o.Solver, "solver_output": truncate(o.Output, 2000),
			"failed_paths": len(a.failed), "paths": a.queries,
		}
		report(n, fmt.Sprintf("%s clause %q not discharged (%s by %s) at %s", a.kind, a.clause, o.Status, o.Solver, o.Where), content)
	}
	// vacuity guards
	for _, c := range covers {
		if c.status == "unsat" {
			report(c.fn+"#cover", "the precondition or the assumptions of this function are contradictory (vacuous proof)", map[string]any{"function": c.fn, "smt_file": c.file})
		}
	}
	// pins
	pinsPath := filepath.Join(*verif, "contracts", "pins.json")
	pins := map[string][]string{}
	if b, err := os.ReadFile(pinsPath); err == nil {
		json.Unmarshal(b, &pins)
	}
	var clauseNames []string
	for _, n := range aggOrder {
		k := aggs[n].kind
		if k == "ensures" || k == "inv-entry" || k == "inv-preserved" || k == "decreases" || k == "lemma" || k == "call-requires" || k == "protocol" || k == "typeinv" || k == "captures" || k == "globalinv" || k == "scope" {
			clauseNames = append(clauseNames, n)
		} else if k == "nopanic" {
			// per function only: which functions carry panic-freedom obligations at all (the sites come and go with edits)
			if i := strings.Index(n, "#nopanic"); i > 0 {
				clauseNames = append(clauseNames, n[:i]+"#nopanic")
			}
		}
	}
	// site ordinals (@N) depend on how many call sites precede: pins keep the stem only, so that adding or
	// removing one call site of a kind is not reported as drift
	{
		seen := map[string]bool{}
		var stems []string
		for _, n := range clauseNames {
			st := reSiteOrd.ReplaceAllString(n, "@")
			if !seen[st] {
				seen[st] = true
				stems = append(stems, st)
			}
		}
		clauseNames = stems
	}
	sort.Strings(clauseNames)
	if *pin {
		pins[prop] = clauseNames
		// locals named in loop invariants: replace this property's functions' entries
		mine := map[string]bool{}
		var add []string
		for _, r := range results {
			if r.Contract == nil {
				continue
			}
			n := r.Contract.Name
			if n == "" {
				n = r.Name
			}
			mine[n] = true
			add = append(add, prog.localPins(n, r.Contract)...)
		}
		var keepL []string
		for _, e := range pins["_locals"] {
			if i := strings.Index(e, "|"); i > 0 && !mine[e[:i]] {
				keepL = append(keepL, e)
			}
		}
		keepL = append(keepL, add...)
		sort.Strings(keepL)
		var dedup []string
		for i, e := range keepL {
			if i == 0 || e != keepL[i-1] {
				dedup = append(dedup, e)
			}
		}
		pins["_locals"] = dedup
		// struct fields of the repository known when the contracts were pinned (union over the properties' loads)
		fs := map[string]bool{}
		for _, f := range pins["_fields"] {
			fs[f] = true
		}
		for _, f := range prog.repoFields() {
			fs[f] = true
		}
		pins["_fields"] = sortedKeys(fs)
		// the loops that carry invariants: ordinal and opening line (see remapLoops)
		{
			keep := map[string]bool{}
			var mineFns = map[string]bool{}
			var add []string
			for _, r := range results {
				if r.Contract == nil || len(r.Contract.LoopInv) == 0 {
					continue
				}
				n := r.Contract.Name
				if n == "" {
					n = r.Name
				}
				fn := prog.funcs[n]
				if fn == nil {
					continue
				}
				mineFns[n] = true
				saved := prog.pinnedLoops
				prog.pinnedLoops = nil
				loops, bodies := findLoops(fn)
				prog.pinnedLoops = saved
				for h, o := range loops {
					if len(r.Contract.LoopInv[o]) > 0 || r.Contract.LoopDec[o] != nil {
						add = append(add, fmt.Sprintf("%s|%d|%s", n, o, prog.loopText(h, bodies[h])))
					}
				}
			}
			for _, e := range pins["_loops"] {
				if i := strings.Index(e, "|"); i > 0 && !mineFns[e[:i]] {
					keep[e] = true
				}
			}
			for _, e := range add {
				keep[e] = true
			}
			pins["_loops"] = sortedKeys(keep)
		}
		fns := map[string]bool{}
		for _, f := range pins["_funcs"] {
			fns[f] = true
		}
		for _, name := range prog.sortedFuncNames() {
			fns[name] = true
		}
		pins["_funcs"] = sortedKeys(fns)
		b, _ := json.MarshalIndent(pins, "", " ")
		os.WriteFile(pinsPath, b, 0o644)
	} else if want, ok := pins[prop]; ok {
		have := map[string]bool{}
		for _, n := range clauseNames {
			have[n] = true
		}
		for _, r := range results {
			if r.VC != nil {
				for n := range r.VC.trivial {
					have[reSiteOrd.ReplaceAllString(n, "@")] = true
				}
			}
		}
		for _, w := range want {
			w = reSiteOrd.ReplaceAllString(w, "@")
			if !have[w] {
				// an obligation that existed when the contracts were pinned is no longer generated
				if _, failed := aggs[w]; !failed {
					gen := false
					for _, r := range results {
						if len(r.Fatal) > 0 && strings.HasPrefix(w, r.Name+"#") {
							gen = true
						}
					}
					if !gen {
						report(w, "pinned obligation is no longer generated (contract drift: the code path carrying this clause disappeared)", map[string]any{})
					}
				}
			}
		}
	}
	// evidence
	ev.Coverage.Obligations = len(aggOrder)
	ev.Coverage.Discharged = discharged
	ev.Coverage.CheckerCmd = fmt.Sprintf("bin/govc check %s --tier %s  (z3-new 5.1.0 / z3 4.8.12%s, %ds per query, e-matching only)", prop, *tier, map[bool]string{true: " / cvc5 1.0", false: ""}[thorough], timeout)
	ev.Coverage.SolverTimeS = solveS
	ev.Coverage.LoadTimeS = loadS
	ev.Coverage.KnownFindingsHit = knownHit
	trusted := map[string]bool{}
	for _, r := range results {
		fe := FuncEvidence{Name: r.Name, File: r.File, Paths: r.Paths}
		if r.Contract != nil {
			fe.Requires, fe.Ensures = len(r.Contract.Requires), len(r.Contract.Ensures)
			for _, l := range r.Contract.LoopInv {
				fe.Invariants += len(l)
			}
			fe.NoPanic = r.Contract.NoPanic
		}
		fe.Queries = len(r.Obligations)
		ev.Coverage.Functions = append(ev.Coverage.Functions, fe)
		if r.VC != nil {
			for n := range r.VC.notes {
				ev.Coverage.AbstractionSites = appendUnique(ev.Coverage.AbstractionSites, n)
			}
			for n := range r.VC.usedExt {
				trusted["library model: "+n] = true
			}
			for n := range r.VC.usedCon {
				cc := prog.contracts.Funcs[n]
				if cc == nil {
					cc = prog.contracts.Specs[n]
				}
				if cc == nil {
					continue
				}
				switch {
				case cc.Trusted:
					trusted[fmt.Sprintf("assumed %s contract: %s", cc.Kind, n)] = true
				case !done[n]:
					trusted[fmt.Sprintf("contract of %s used at call sites; verified under %s", n, strings.Join(cc.Props, ","))] = true
				}
			}
			for n := range r.VC.folds {
				trusted["fold prelude (definitions + concat/update/reverse consequences): "+n] = true
			}
		}
	}
	sort.Strings(ev.Coverage.AbstractionSites)
	for _, n := range aggOrder {
		a := aggs[n]
		var sv []string
		for s, c := range a.solver {
			sv = append(sv, fmt.Sprintf("%s:%d", s, c))
		}
		sort.Strings(sv)
		st := "discharged"
		if !a.ok {
			st = "FAILED"
			if isKnown(n) != nil {
				st = "known-finding"
			}
		}
		ev.Coverage.PerObligation = append(ev.Coverage.PerObligation, OblEvidence{Name: n, Kind: a.kind, Clause: a.clause, Queries: a.queries, Status: st, Solvers: strings.Join(sv, " "), Ms: a.ms})
	}
	for i, n := range aggOrder {
		if i%maxInt(1, len(aggOrder)/3) == 0 && len(ev.Coverage.Samples) < 4 {
			a := aggs[n]
			s := map[string]any{"obligation": n, "clause": a.clause, "kind": a.kind}
			for _, r := range results {
				for _, o := range r.Obligations {
					if o.Name == n {
						s["smt_file"] = o.File
						s["path"] = o.Trace
						s["assumptions_on_path"] = len(o.Assumes)
						s["goal"] = truncate(o.Goal, 400)
						break
					}
				}
				if _, ok := s["smt_file"]; ok {
					break
				}
			}
			ev.Coverage.Samples = append(ev.Coverage.Samples, s)
		}
	}
	ev.Coverage.CoverChecks = len(covers)
	base := []string{
		"govc (SSA -> SMT translation, loop cutting, prelude axioms) and go/ssa's lowering of Go",
		"z3 / cvc5 'unsat' answers",
		"integers are mathematical except at explicit conversions and in + - * of the sized signed types (int64, int32, int16, int8), which wrap; overflow of int, uint and sized unsigned arithmetic is assumed absent",
		"slices are value sequences: capacity and backing-array sharing are outside the terms (in-place sites listed under abstraction_sites); where a contract says separate(a.f, b.g) the non-sharing is an obligation decided from the executor's backing-array tracking",
		"math/big behaves as mathematical integers / rationals; an in-place mutation of a big value the function did not allocate, or after a pointer to it was stored or handed out, is reported as a frame obligation (static ownership analysis on the SSA); other aliasing of big values is not modelled",
		"package-level variables named in 'assume' lines keep their initial value",
	}
	for t := range trusted {
		base = append(base, t)
	}
	sort.Strings(base[6:])
	ev.Coverage.TrustedBase = base
	ev.Assumptions = append(append([]string{}, cfg.Assumptions...), cfg.NotDecided...)
	ev.Coverage.Claim = cfg.Claim
	ev.Coverage.NotDecided = cfg.NotDecided
	if len(knownHit) > 0 && ev.Level == "proof" {
		ev.Level = "other"
		ev.Coverage.Explanation = "known findings hit: the property does not hold on this tree for the listed obligations; remaining obligations discharged"
	}
	if ev.Level == "other" && ev.Coverage.Explanation == "" {
		ev.Coverage.Explanation = cfg.Claim
	}
	ev.finish(*verif, start, violations, "")
	// disk: the queries of discharged obligations are regenerated by the next run; keep the sampled ones (the evidence
	// names them) and everything that was not discharged (replay records name those). GOVC_KEEP_QUERIES=1 keeps all.
	if os.Getenv("GOVC_KEEP_QUERIES") == "" {
		keep := map[string]bool{}
		for _, smp := range ev.Coverage.Samples {
			if f, ok := smp["smt_file"].(string); ok {
				keep[f] = true
			}
		}
		for _, r := range results {
			for _, o := range r.Obligations {
				if o.Status != "unsat" && o.File != "" {
					keep[o.File] = true
				}
			}
		}
		if ents, err := os.ReadDir(workDir); err == nil {
			for _, e := range ents {
				f := filepath.Join(workDir, e.Name())
				if keep[f] || keep[strings.TrimSuffix(f, ".cvc5.smt2")+".smt2"] || strings.Contains(e.Name(), "_retry") && violations > 0 {
					continue
				}
				if strings.HasSuffix(e.Name(), ".smt2") {
					os.Remove(f)
				}
			}
		}
	}
	if *verbose || violations > 0 {
		for _, n := range aggOrder {
			a := aggs[n]
			if !a.ok || *verbose {
				fmt.Printf("  %-5v %s (%d queries)\n", a.ok, n, a.queries)
			}
		}
	}
	fmt.Printf("property %s: %d obligations, %d discharged, %d known findings, %d violations, %d functions, %.1fs\n", prop, len(aggOrder), discharged, len(knownHit), violations, len(results), time.Since(start).Seconds())
	if violations > 0 {
		os.Exit(1)
	}
}

func flagSet(fs *flag.FlagSet, name string) bool {
	found := false
	fs.Visit(func(f *flag.Flag) {
		if f.Name == name {
			found = true
		}
	})
	return found
}

func truncate(s string, n int) string {
	if len(s) > n {
		return s[:n] + "..."
	}
	return s
}

func maxInt(a, b int) int {
	if a > b {
		return a
	}
	return b
}

func appendUnique(l []string, s string) []string {
	for _, x := range l {
		if x == s {
			return l
		}
	}
	return append(l, s)
}

type coverResult struct {
	fn     string
	status string
	file   string
}

func runCovers(results []*FuncResult, workDir string, timeout int) []coverResult {
	var out []coverResult
	query := func(r *FuncResult, tag string, pc []string) (string, string) {
		var b strings.Builder
		b.WriteString(r.Preamble)
		fmt.Fprintf(&b, "; cover (%s) of %s: must not be unsat\n", tag, r.Name)
		for _, a := range pc {
			fmt.Fprintf(&b, "(assert %s)\n", a)
		}
		b.WriteString("(check-sat)\n")
		f := filepath.Join(workDir, fmt.Sprintf("cover_%s_%s.smt2", sanitize(r.Name), tag))
		os.WriteFile(f, []byte(b.String()), 0o644)
		sr := solve(f, minInt(timeout, 3), false, "")
		return sr.status, f
	}
	for _, r := range results {
		if r.VC == nil || len(r.Fatal) > 0 || r.CoverPC == nil {
			continue
		}
		// (1) the precondition together with the global assumptions is not contradictory
		st, f := query(r, "pre", r.CoverPC)
		out = append(out, coverResult{r.Name + "#pre", st, f})
		// (2) some return is reachable
		if r.Contract != nil && len(r.ReturnPCs) > 0 {
			status, file := "unsat", ""
			for i, pc := range r.ReturnPCs {
				st, f := query(r, fmt.Sprintf("ret%d", i), pc)
				if st != "unsat" {
					status, file = st, f
					break
				}
				file = f
			}
			out = append(out, coverResult{r.Name + "#return", status, file})
		}
	}
	return out
}

func minInt(a, b int) int {
	if a < b {
		return a
	}
	return b
}

// Evidence ---------------------------------------------------------------------

type FuncEvidence struct {
	Name       string `json:"name"`
	File       string `json:"file"`
	Requires   int    `json:"requires"`
	Ensures    int    `json:"ensures"`
	Invariants int    `json:"loop_invariants"`
	NoPanic    bool   `json:"nopanic"`
	Paths      int    `json:"paths"`
	Queries    int    `json:"smt_queries"`
}

type OblEvidence struct {
	Name    string `json:"name"`
	Kind    string `json:"kind"`
	Clause  string `json:"clause"`
	Queries int    `json:"queries"`
	Status  string `json:"status"`
	Solvers string `json:"discharged_by"`
	Ms      int64  `json:"solver_ms"`
}

type Coverage struct {
	Obligations      int              `json:"obligations"`
	Discharged       int              `json:"discharged"`
	CheckerCmd       string           `json:"checker_cmd"`
	TrustedBase      []string         `json:"trusted_base"`
	Explanation      string           `json:"explanation,omitempty"`
	Claim            string           `json:"claim"`
	NotDecided       []string         `json:"not_decided"`
	Functions        []FuncEvidence   `json:"functions_under_contract"`
	PerObligation    []OblEvidence    `json:"per_obligation"`
	SolverTimeS      float64          `json:"solver_time_s"`
	LoadTimeS        float64          `json:"load_time_s"`
	CoverChecks      int              `json:"cover_checks"`
	AbstractionSites []string         `json:"abstraction_sites"`
	KnownFindingsHit []string         `json:"known_findings_hit"`
	BoundedStandins  []string         `json:"bounded_standins"`
	Samples          []map[string]any `json:"samples"`
}

type Evidence struct {
	PropertyID  string   `json:"property_id"`
	Tier        string   `json:"tier"`
	Seed        int      `json:"seed"`
	Level       string   `json:"level"`
	Coverage    Coverage `json:"coverage"`
	Assumptions []string `json:"assumptions"`
	WallS       float64  `json:"wall_s"`
	Violations  int      `json:"violations"`
	dir         string
}

func (ev *Evidence) finish(verif string, start time.Time, violations int, note string) {
	ev.WallS = time.Since(start).Seconds()
	ev.Violations = violations
	if ev.Coverage.TrustedBase == nil {
		ev.Coverage.TrustedBase = []string{}
	}
	if ev.Coverage.CheckerCmd == "" {
		ev.Coverage.CheckerCmd = "bin/govc check " + ev.PropertyID
	}
	if ev.Coverage.Samples == nil {
		ev.Coverage.Samples = []map[string]any{}
	}
	if ev.Coverage.KnownFindingsHit == nil {
		ev.Coverage.KnownFindingsHit = []string{}
	}
	if ev.Coverage.BoundedStandins == nil {
		ev.Coverage.BoundedStandins = []string{}
	}
	if ev.Coverage.NotDecided == nil {
		ev.Coverage.NotDecided = []string{}
	}
	if ev.Assumptions == nil {
		ev.Assumptions = []string{}
	}
	if note != "" {
		ev.Coverage.Explanation = note
	}
	if ev.Level != "proof" && ev.Coverage.Explanation == "" {
		ev.Coverage.Explanation = ev.Coverage.Claim
	}
	if ev.Coverage.Obligations == 0 || ev.Coverage.Discharged == 0 || ev.Coverage.Discharged != ev.Coverage.Obligations {
		if ev.Level == "proof" {
			ev.Level = "other"
			if ev.Coverage.Explanation == "" {
				ev.Coverage.Explanation = "not every obligation was discharged on this run"
			}
		}
	}
	out := filepath.Join(verif, "evidence")
	if ev.dir != "" {
		out = filepath.Join(ev.dir, "evidence")
	}
	os.MkdirAll(out, 0o755)
	b, _ := json.MarshalIndent(ev, "", " ")
	os.WriteFile(filepath.Join(out, ev.PropertyID+".json"), b, 0o644)
}

// onlyTaggedClaims: a contract that belongs to no property of its own (no `property` line), is verified for the properties
// of its `alsofor` line, and tells its callers nothing but clauses tagged with those properties: no untagged ensures, no
// frame (modifies all, or none), no purity. Nothing of it is left to verify in a run for another property.
func onlyTaggedClaims(c *FuncContract) bool {
	if len(c.AlsoFor) == 0 || c.Pure || c.NoPanic || len(c.Updates) > 0 {
		return false
	}
	for _, e := range c.Ensures {
		if len(e.Props) == 0 {
			return false
		}
	}
	if c.HasMod && !(len(c.Modifies) == 1 && c.Modifies[0] == "all") {
		return false
	}
	return true
}
