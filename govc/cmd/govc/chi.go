package main

// Model of the chi router registration API (assumed contract of the library):
//   - a handler registered with Get/Head/Options (or with a method-agnostic
//     registration) is reached by read requests, so it must implement the
//     closure spec ReadHandler;
//   - Route/Group call their function argument with a sub-router that obeys
//     the same rules; With returns such a router;
//   - Use installs middlewares that wrap everything registered afterwards: a
//     repository middleware's own handler must implement ReadHandler as well,
//     and installing api.ReadOnly sets the ghost flag roInstalled;
//   - every registration on a router requires roMode ==> roInstalled (read-only
//     mode: the method filter must already be in place).

import (
	"fmt"
	"go/types"
	"strings"

	"golang.org/x/tools/go/ssa"
)

var chiReadReg = map[string]bool{"Get": true, "Head": true, "Options": true, "Handle": true, "HandleFunc": true, "Connect": true, "Trace": true, "Method": true, "MethodFunc": true, "NotFound": true, "MethodNotAllowed": true}
var chiWriteReg = map[string]bool{"Post": true, "Put": true, "Patch": true, "Delete": true}

func isChiRouterType(t types.Type) bool {
	s := types.TypeString(t, nil)
	return strings.Contains(s, "github.com/go-chi/chi/v5.Router") || strings.Contains(s, "github.com/go-chi/chi/v5.Mux")
}

// chiCall handles a call (static or interface) of a chi router method. Returns false if not a chi method.
func (ex *Exec) chiCall(fr *Frame, method string, sig *types.Signature, args []Val, st *State, k CallCont) bool {
	vc := ex.vc
	spec := vc.prog.contracts.Specs["ReadHandler"]
	if spec == nil {
		return false
	}
	vc.usedExt["chi router model: handlers registered for GET/HEAD/OPTIONS (or any method) must implement ReadHandler; Route/Group/With/Mount/Use as documented"] = true
	guard := func() {
		env := ex.newEnv(st, nil, nil, fr)
		env.goal = true
		roMode, ok1 := env.ghostVal("roMode", st)
		_, ok2 := env.ghostVal("roInstalled", st)
		if ok1 && ok2 {
			// the filter must be installed on the very router this registration goes to (Use on it or on the router it
			// was derived from with Route/Group/With); a filter given to With covers only the router With returns
			inst := "false"
			if len(args) > 0 && st.roRouters[routerKey(args[0])] {
				inst = "true"
			}
			vc.curProps = []string{"C19"}
			ex.obligationFull(fr, st, "protocol", "read-only mode: the method filter is installed on this router before any route is registered", implies(roMode.T.S, inst), false, fmt.Sprintf("roGuard@%d", ex.siteOrdinal(ex.cur)), true)
			vc.curProps = nil
		}
	}
	requireRead := func(h Val, what string) {
		if h.K == VTerm && h.T.Sort == SFunc {
			if cl, ok := vc.funcConsts[h.T.S]; ok {
				h = cl
			}
		}
		if h.K == VTerm && h.T.Sort == SAny {
			// http.HandlerFunc(closure) boxed in an http.Handler
			for name, cl := range vc.funcConsts {
				if strings.Contains(h.T.S, name+")") || strings.HasSuffix(h.T.S, name) {
					h = cl
					break
				}
			}
		}
		if h.K != VClosure || h.Fn == nil {
			vc.curProps = []string{"C19"}
			ex.obligationFull(fr, st, "protocol", what+": the handler must resolve statically so that it can be checked against ReadHandler", "false", false, fmt.Sprintf("unresolved@%d", ex.siteOrdinal(ex.cur)), true)
			vc.curProps = nil
			return
		}
		if !vc.prog.inRepoFn(h.Fn) {
			vc.usedExt["library handler/middleware "+vc.prog.funcName(h.Fn)+" is assumed not to write to the ledger"] = true
			return
		}
		vc.specChecks = append(vc.specChecks, specCheck{fn: h.Fn, spec: spec})
	}
	routerResult := func() Val {
		if sig.Results().Len() == 0 {
			return Val{}
		}
		return tv(vc.fresh("router", vc.sorts.SortOf(sig.Results().At(0).Type())))
	}
	switch {
	case chiReadReg[method]:
		guard()
		if method == "Method" || method == "MethodFunc" {
			// (recv, method, pattern, handler)
			mname := ""
			if len(args) > 1 && args[1].K == VTerm {
				for s, n := range vc.strLits {
					if n == args[1].T.S {
						mname = s
					}
				}
			}
			if chiWriteMethods[mname] {
				k(st, Val{}, false)
				return true
			}
		}
		requireRead(args[len(args)-1], "registration with "+method)
		k(st, Val{}, false)
	case chiWriteReg[method]:
		guard()
		k(st, Val{}, false)
	case method == "Mount":
		guard()
		k(st, Val{}, false)
	case method == "Route" || method == "Group":
		guard()
		fn := args[len(args)-1]
		if fn.K == VTerm && fn.T.Sort == SFunc {
			if cl, ok := vc.funcConsts[fn.T.S]; ok {
				fn = cl
			}
		}
		if fn.K != VClosure {
			vc.fatalf("%s: the function argument does not resolve statically at %s", method, ex.where())
			return true
		}
		sub := tv(vc.fresh("subrouter", SAny))
		st.assume(not(app("=", sub.T.S, "any_nil")))
		if st.roRouters[routerKey(args[0])] {
			st.markRO(routerKey(sub))
		}
		res := routerResult()
		ex.callFunc(fr, fn.Fn, fn.Bind, []Val{sub}, nil, st, func(st2 *State, _ Val, panicked bool) {
			if panicked {
				k(st2, Val{}, true)
				return
			}
			k(st2, res, false)
		})
	case method == "With":
		ro := ex.chiUse(fr, args[1:], st, requireRead)
		r := routerResult()
		if r.K == VTerm {
			st.assume(not(app("=", r.T.S, vc.sorts.Zero(r.T.Sort).S)))
			if ro || st.roRouters[routerKey(args[0])] {
				st.markRO(routerKey(r))
			}
			if ro {
				st.ghost["roInstalled"] = Term{"true", SBool}
				if st.writes != nil {
					st.writes.ghost["roInstalled"] = true
				}
			}
		}
		k(st, r, false)
	case method == "Use":
		if ex.chiUse(fr, args[1:], st, requireRead) {
			st.markRO(routerKey(args[0]))
			st.ghost["roInstalled"] = Term{"true", SBool}
			if st.writes != nil {
				st.writes.ghost["roInstalled"] = true
			}
		}
		k(st, Val{}, false)
	default:
		return false
	}
	return true
}

var chiWriteMethods = map[string]bool{"POST": true, "PUT": true, "PATCH": true, "DELETE": true}

// chiUse: middlewares. A middleware is func(http.Handler) http.Handler; for a repository
// middleware we obtain the handler it builds by running it on an arbitrary next handler.
// It reports whether api.ReadOnly is among them.
func (ex *Exec) chiUse(fr *Frame, mws []Val, st *State, requireRead func(Val, string)) (readOnly bool) {
	vc := ex.vc
	var list []Val
	for _, a := range mws {
		if a.K == VTerm && strings.HasPrefix(a.T.Sort, "Seq_") {
			if lit, ok := vc.seqLits[a.T.S]; ok {
				for _, e := range lit {
					list = append(list, tv(e))
				}
				continue
			}
			if a.T.S == "sq_empty_"+a.T.Sort {
				continue
			}
			vc.fatalf("Use/With: middleware list is not a literal at %s", ex.where())
			return false
		}
		list = append(list, a)
	}
	for _, mw := range list {
		if mw.K == VTerm && mw.T.Sort == SFunc {
			if cl, ok := vc.funcConsts[mw.T.S]; ok {
				mw = cl
			}
		}
		if mw.K != VClosure || mw.Fn == nil {
			vc.usedExt["a middleware that does not resolve statically (library value) is assumed not to write to the ledger"] = true
			continue
		}
		name := vc.prog.funcName(mw.Fn)
		if name == "api.ReadOnly" {
			readOnly = true
			continue
		}
		if !vc.prog.inRepoFn(mw.Fn) {
			vc.usedExt["library middleware "+name+" is assumed not to write to the ledger"] = true
			continue
		}
		// run the middleware constructor on an arbitrary next handler and check the handler it returns
		next := tv(vc.fresh("next", SAny))
		st2 := st.clone()
		cur := ex.cur
		ex.callFunc(fr, mw.Fn, mw.Bind, []Val{next}, nil, st2, func(st3 *State, res Val, panicked bool) {
			if !panicked {
				requireRead(res, "middleware "+name)
			}
		})
		ex.cur = cur
	}
	return readOnly
}

// routerKey identifies a router value whether it is held as *chi.Mux or boxed in a chi.Router interface.
func routerKey(v Val) string {
	if v.K != VTerm {
		return fmt.Sprintf("?%p", &v)
	}
	s := v.T.S
	if strings.HasPrefix(s, "(") && strings.HasSuffix(s, ")") {
		if i := strings.Index(s, " "); i > 0 && !strings.ContainsAny(s[i+1:len(s)-1], " ()") {
			return s[i+1 : len(s)-1]
		}
	}
	return s
}

func (st *State) markRO(k string) {
	n := map[string]bool{k: true}
	for o := range st.roRouters {
		n[o] = true
	}
	st.roRouters = n
}

// chiStatic recognises static calls of chi methods / constructors.
func (ex *Exec) chiStatic(fr *Frame, callee *ssa.Function, args []Val, st *State, k CallCont) bool {
	if callee.Pkg == nil || callee.Pkg.Pkg.Path() != "github.com/go-chi/chi/v5" {
		return false
	}
	switch callee.Name() {
	case "NewRouter", "NewMux":
		r := tv(ex.vc.fresh("mux", ex.vc.sorts.SortOf(callee.Signature.Results().At(0).Type())))
		st.assume(not(app("=", r.T.S, "0")))
		k(st, r, false)
		return true
	}
	if callee.Signature.Recv() == nil {
		return false
	}
	return ex.chiCall(fr, callee.Name(), callee.Signature, args, st, k)
}
