package main

// Contract files: comment-only Go files (build tag verif) holding //@ lines.

import (
	"fmt"
	"go/ast"
	"go/token"
	"go/types"
	"os"
	"path/filepath"
	"regexp"
	"strconv"
	"strings"
)

type Clause struct {
	Scope   []string // the clause applies only to calls made (transitively) from functions whose name contains one of these
	Outside bool     // ... or, with `outside`, to every call NOT made from one of them
	Props   []string // property ids named in the clause's trailing comment: the clause belongs to these only
	Text    string
	Expr    Expr
	File    string
	Line    int
	Ordinal int
}

type FuncContract struct {
	Kind         string // func | extern | iface | spec
	Name         string
	Params       []string // spec blocks: parameter names
	Requires     []*Clause
	Assumes      []*Clause // preconditions that call sites do not check (explicit assumptions)
	Updates      []*GhostUpdate
	Alias        []string // positional parameter names (closure specs)
	InPlace      []string // slice parameters whose elements the function rewrites (visible to the caller)
	SpecOf       string
	Ensures      []*Clause
	LoopInv      map[int][]*Clause
	LoopDec      map[int]*Clause
	Modifies     []string
	HasMod       bool
	NoPanic      bool
	Pure         bool
	Trusted      bool // body not verified (extern / iface)
	Props        []string
	File         string
	Line         int
	Notes        []string
	Inline       bool // force inlining at call sites instead of modular use
	Terminate    bool
	Captures     []*Clause // closures: facts about captured variables, checked where the closure is created
	NoPanicProps []string  // properties the nopanic obligations belong to (empty: all)
	IfaceCheck   bool      // this is an interface contract being checked against one implementer
	AlsoFor      []string  // properties for which only the explicitly tagged obligations of this function count
	BodyRules    []string  // trusted contracts: properties for which the body is still executed (tagged obligations of its calls only)
	GlobalInvs   []*TypeDecl
	Implementers bool // iface: every implementer in the loaded program is verified against this contract
	Owns         []*Clause
}

// SinkDecl: every string parameter of every method of the receiver type must satisfy the predicate;
// string results satisfy it (assumed contract of the library that renders the text).
type SinkDecl struct {
	Recv     string
	Pred     string
	Rendered string // weaker predicate of text rendered by the sink itself ("" = same as Pred)
	Props []string
	File  string
	Line  int
}

// ScopeDecl: row sources partitioned by an owner column (see scope.go).
type ScopeDecl struct {
	Recv        string
	Tables      []string
	Functions   []string
	Column      string
	TextResults []string // closure specs whose implementers return (text, bound arguments, ...)
	Owner       string   // pkg.Type.field
	Props       []string
	File        string
	Line        int
}

// TypeDecl: typeinv / typespec / globalinv declarations.
type TypeDecl struct {
	Kind  string // typeinv | typespec | globalinv
	Name  string // pkg.Type or pkg.Var
	Spec  string // typespec: closure spec name
	Inv   *Clause
	Props []string
	pkg   *types.Package
	File  string
	Line  int
}

// MonitorDecl: state protected by a mutex field and the invariant that holds whenever the mutex is free.
type MonitorDecl struct {
	Type     string // pkg.Struct
	Field    string // mutex field
	Protects []string
	Inv      *Clause
	Rely     *Clause // interference: what other threads may have done to the protected state between two critical sections (two-state)
	Props    []string
	pkg      *types.Package
	File     string
	Line     int
}

type GhostUpdate struct {
	Ghost string
	Expr  Expr
	Text  string
	Line  int
}

type GhostDecl struct {
	Name string
	Type string // int | bool | set[T] | map[K]V  (spec-level)
	Sort string
	File string
}

type FoldDecl struct {
	Name     string
	Params   []FoldParam // first is the sequence
	Result   string      // int | bool
	Kind     string      // sum | all | count
	Var      string
	BodyText string
	Body     Expr
	File     string
	Line     int
	// resolved
	seqSort  string
	elemType types.Type
	ptypes   []types.Type
	bodyFn   string // name of the SMT function for the body
	resolved bool
	pkg      *types.Package
}

type FoldParam struct {
	Name string
	Type string
}

type LemmaDecl struct {
	Name     string
	Params   []FoldParam
	Requires []*Clause
	Ensures  []*Clause
	Props    []string
	File     string
	Line     int
	pkg      *types.Package
}

type GlobalAssume struct {
	Props []string
	Ghost string
	Scope []string // function-name substrings this rule applies to (empty: everywhere)
	Text  string
	Expr  Expr
	File  string
	Line  int
	pkg   *types.Package
}

type ContractSet struct {
	Funcs      map[string]*FuncContract
	Order      []string
	Ghosts     map[string]*GhostDecl
	Folds      map[string]*FoldDecl
	FoldOrd    []string
	Lemmas     []*LemmaDecl
	Assumes    []*GlobalAssume
	ChanInvs   []*GlobalAssume
	OnRecv     []*GlobalAssume
	OnRecvUp   []*GlobalAssume // ghost updates performed at a receive: Ghost = Expr
	Monitors   []*MonitorDecl
	ChanMsgs   []*GlobalAssume   // message invariants: Ghost holds the channel's source name
	FieldSpecs map[string]string // "pkg.Struct.field" -> closure spec
	Specs      map[string]*FuncContract
	Defs       map[string]*DefDecl
	Errors     []string
	pkgUFuns   map[string]*UFun
	StrPreds   []string
	Sinks      []*SinkDecl
	PurePkgs   map[string]bool // package paths whose functions and interface methods are deterministic and effect-free
	Scopes     []*ScopeDecl
	TypeDecls  []*TypeDecl
	pkgOf      map[string]*types.Package // contract name -> package of the file declaring it
}

// DefDecl: a non-recursive spec-level definition (macro), expanded at use.
type DefDecl struct {
	Name   string
	Params []FoldParam
	Body   Expr
	Text   string
	File   string
	Line   int
	pkg    *types.Package
}

func NewContractSet() *ContractSet {
	return &ContractSet{Funcs: map[string]*FuncContract{}, Ghosts: map[string]*GhostDecl{}, Folds: map[string]*FoldDecl{},
		FieldSpecs: map[string]string{}, Specs: map[string]*FuncContract{}, Defs: map[string]*DefDecl{}, pkgOf: map[string]*types.Package{}, pkgUFuns: map[string]*UFun{}}
}

var rePropID = regexp.MustCompile(`\bC[0-9]{2}\b`)

var reLoop = regexp.MustCompile(`^loop\s+(\d+)\s+(invariant|decreases)\s+(.*)$`)

// ParseContractComments reads the //@ lines of one file.
func (cs *ContractSet) ParseFile(fset *token.FileSet, f *ast.File, pkg *types.Package) {
	fname := fset.Position(f.Pos()).Filename
	var lines []struct {
		text string
		line int
	}
	for _, cg := range f.Comments {
		for _, c := range cg.List {
			if strings.HasPrefix(c.Text, "//@") {
				lines = append(lines, struct {
					text string
					line int
				}{strings.TrimSpace(c.Text[3:]), fset.Position(c.Pos()).Line})
			}
		}
	}
	cs.parseLines(fname, lines, pkg)
}

// ParseExternFile reads a .contracts file (same syntax, outside the repo).
func (cs *ContractSet) ParseExternFile(path string) error {
	data, err := os.ReadFile(path)
	if err != nil {
		return err
	}
	var lines []struct {
		text string
		line int
	}
	for i, l := range strings.Split(string(data), "\n") {
		l = strings.TrimSpace(l)
		if strings.HasPrefix(l, "//@") {
			lines = append(lines, struct {
				text string
				line int
			}{strings.TrimSpace(l[3:]), i + 1})
		}
	}
	cs.parseLines(path, lines, nil)
	return nil
}

func (cs *ContractSet) errf(file string, line int, format string, a ...any) {
	cs.Errors = append(cs.Errors, fmt.Sprintf("%s:%d: %s", filepath.Base(file), line, fmt.Sprintf(format, a...)))
}

func stripComment(s string) string {
	// strip trailing "// ..." that is not inside a string literal
	inStr := false
	for i := 0; i+1 < len(s); i++ {
		if s[i] == '"' {
			inStr = !inStr
		}
		if !inStr && s[i] == '/' && s[i+1] == '/' {
			return strings.TrimSpace(s[:i])
		}
	}
	return s
}

func (cs *ContractSet) parseLines(fname string, lines []struct {
	text string
	line int
}, pkg *types.Package) {
	var cur *FuncContract
	var curLemma *LemmaDecl
	var lastProps []string
	_ = lastProps
	mkClause := func(text string, line int, ord int) *Clause {
		full := text
		text = stripComment(text)
		var props []string
		if len(full) > len(text) {
			props = rePropID.FindAllString(full[len(text):], -1)
		}
		defer func() { lastProps = props }()
		e, err := ParseExpr(text)
		if err != nil {
			cs.errf(fname, line, "cannot parse %q: %v", text, err)
			return nil
		}
		return &Clause{Text: text, Expr: e, File: fname, Line: line, Ordinal: ord, Props: props}
	}
	// join continuation lines (starting with "...")
	var joined []struct {
		text string
		line int
	}
	for _, l := range lines {
		if strings.HasPrefix(l.text, "...") && len(joined) > 0 {
			joined[len(joined)-1].text += " " + strings.TrimSpace(l.text[3:])
			continue
		}
		joined = append(joined, l)
	}
	for _, l := range joined {
		t := l.text
		if t == "" {
			continue
		}
		word, rest := splitWord(t)
		switch word {
		case "func", "extern", "iface", "spec":
			kind := word
			if word == "extern" {
				w2, r2 := splitWord(rest)
				if w2 == "func" {
					rest = r2
				}
			}
			name := strings.TrimSpace(rest)
			var params []string
			if kind == "spec" {
				if i := strings.Index(name, "("); i >= 0 {
					ps := strings.TrimSuffix(strings.TrimSpace(name[i+1:]), ")")
					name = strings.TrimSpace(name[:i])
					for _, p := range strings.Split(ps, ",") {
						if p = strings.TrimSpace(p); p != "" {
							params = append(params, p)
						}
					}
				}
			}
			cur = &FuncContract{Kind: kind, Name: name, Params: params, LoopInv: map[int][]*Clause{}, LoopDec: map[int]*Clause{}, File: fname, Line: l.line}
			cur.Trusted = kind == "extern" || kind == "iface"
			curLemma = nil
			if kind == "spec" {
				cs.Specs[name] = cur
			} else {
				if _, dup := cs.Funcs[name]; dup {
					cs.errf(fname, l.line, "duplicate contract for %s", name)
				}
				cs.Funcs[name] = cur
				cs.Order = append(cs.Order, name)
			}
			cs.pkgOf[name] = pkg
		case "ghost":
			w, r := splitWord(rest)
			cs.Ghosts[w] = &GhostDecl{Name: w, Type: strings.TrimSpace(r), File: fname}
			cur, curLemma = nil, nil
		case "fold":
			fd, err := parseFold(rest)
			if err != nil {
				cs.errf(fname, l.line, "fold: %v", err)
				continue
			}
			fd.File, fd.Line, fd.pkg = fname, l.line, pkg
			cs.Folds[fd.Name] = fd
			cs.FoldOrd = append(cs.FoldOrd, fd.Name)
			cur, curLemma = nil, nil
		case "def":
			// def name(params) = expr
			i := strings.Index(rest, "=")
			if i < 0 {
				cs.errf(fname, l.line, "def without =")
				continue
			}
			head, body := strings.TrimSpace(rest[:i]), strings.TrimSpace(rest[i+1:])
			name, params, err := parseHead(head)
			if err != nil {
				cs.errf(fname, l.line, "def: %v", err)
				continue
			}
			e, err := ParseExpr(stripComment(body))
			if err != nil {
				cs.errf(fname, l.line, "def %s: %v", name, err)
				continue
			}
			cs.Defs[name] = &DefDecl{Name: name, Params: params, Body: e, Text: body, File: fname, Line: l.line, pkg: pkg}
			cur, curLemma = nil, nil
		case "ufun":
			// ufun name(...) result
			j := strings.LastIndex(rest, ")")
			if j < 0 {
				cs.errf(fname, l.line, "bad ufun")
				continue
			}
			name, _, err := parseHead(strings.TrimSpace(rest[:j+1]))
			if err != nil {
				cs.errf(fname, l.line, "ufun: %v", err)
				continue
			}
			cs.pkgUFuns[name] = &UFun{Name: name, Result: strings.TrimSpace(rest[j+1:])}
			cur, curLemma = nil, nil
		case "strpred":
			// strpred name : a predicate on strings closed under the string-building operations (see strpred.go)
			name := strings.TrimSpace(stripComment(rest))
			cs.pkgUFuns[name] = &UFun{Name: name, Result: "bool"}
			cs.StrPreds = append(cs.StrPreds, name)
			cur, curLemma = nil, nil
		case "typeinv", "globalinv":
			i := strings.Index(rest, ":")
			if i < 0 {
				cs.errf(fname, l.line, "%s: expected '<name>: <expr over self>'", word)
				continue
			}
			td := &TypeDecl{Kind: word, Name: strings.TrimSpace(rest[:i]), pkg: pkg, File: fname, Line: l.line}
			td.Inv = mkClause(rest[i+1:], l.line, 1)
			if td.Inv != nil {
				td.Props = td.Inv.Props
				cs.TypeDecls = append(cs.TypeDecls, td)
			}
			cur, curLemma = nil, nil
		case "jsonname":
			// jsonname pkg.Type.Field "name" // Cxx: the member of the JSON object this field is read from / written to is
			// the documented one (the wire name is part of the API: a client's key must not be silently ignored)
			full := rest
			rest = stripComment(rest)
			w1, r1 := splitWord(rest)
			td := &TypeDecl{Kind: word, Name: w1, Spec: strings.Trim(strings.TrimSpace(r1), "\""), pkg: pkg, File: fname, Line: l.line}
			if len(full) > len(rest) {
				td.Props = rePropID.FindAllString(full[len(rest):], -1)
			}
			cs.TypeDecls = append(cs.TypeDecls, td)
			cur, curLemma = nil, nil
		case "jsonfields":
			// jsonfields pkg.Type // Cxx: the JSON encoding of the struct carries every field (exported, not tagged "-",
			// names pairwise distinct): the side condition under which its encode/decode round trip can be assumed
			full := rest
			rest = stripComment(rest)
			td := &TypeDecl{Kind: word, Name: strings.TrimSpace(rest), pkg: pkg, File: fname, Line: l.line}
			if len(full) > len(rest) {
				td.Props = rePropID.FindAllString(full[len(rest):], -1)
			}
			cs.TypeDecls = append(cs.TypeDecls, td)
			cur, curLemma = nil, nil
		case "typespec":
			full := rest
			rest = stripComment(rest)
			w1, r1 := splitWord(rest)
			td := &TypeDecl{Kind: word, Name: w1, Spec: strings.TrimSpace(r1), pkg: pkg, File: fname, Line: l.line}
			if len(full) > len(rest) {
				td.Props = rePropID.FindAllString(full[len(rest):], -1)
			}
			cs.TypeDecls = append(cs.TypeDecls, td)
			cur, curLemma = nil, nil
		case "purepkg":
			// purepkg <import path>: every function, method and interface method of the package is a deterministic
			// function of its arguments without effects (assumed; e.g. accessors of an immutable parse tree)
			if cs.PurePkgs == nil {
				cs.PurePkgs = map[string]bool{}
			}
			cs.PurePkgs[strings.TrimSpace(stripComment(rest))] = true
			cur, curLemma = nil, nil
		case "sinks":
			full := rest
			rest = stripComment(rest)
			w1, r1 := splitWord(rest)
			sd := &SinkDecl{Recv: w1, Pred: strings.TrimSpace(r1), File: fname, Line: l.line}
			if f := strings.Fields(sd.Pred); len(f) == 3 && f[1] == "rendered" {
				// sinks <recv> P rendered Q: text the sink renders itself (String()) only satisfies Q; a text parameter must
				// satisfy P when bound arguments accompany it (it is interpolated again), Q otherwise
				sd.Pred, sd.Rendered = f[0], f[2]
			}
			if len(full) > len(rest) {
				sd.Props = rePropID.FindAllString(full[len(rest):], -1)
			}
			cs.Sinks = append(cs.Sinks, sd)
			cur, curLemma = nil, nil
		case "scoped":
			// scoped <recv> tables=a,b functions=f,g column=ledger owner=pkg.Type.field // Cxx
			full := rest
			rest = stripComment(rest)
			fields := strings.Fields(rest)
			if len(fields) < 2 {
				cs.errf(fname, l.line, "scoped: expected '<recv type> key=value ...'")
				continue
			}
			sd := &ScopeDecl{Recv: fields[0], File: fname, Line: l.line}
			for _, f := range fields[1:] {
				kv := strings.SplitN(f, "=", 2)
				if len(kv) != 2 {
					cs.errf(fname, l.line, "scoped: bad field %q", f)
					continue
				}
				switch kv[0] {
				case "tables":
					sd.Tables = strings.Split(kv[1], ",")
				case "functions":
					sd.Functions = strings.Split(kv[1], ",")
				case "column":
					sd.Column = kv[1]
				case "owner":
					sd.Owner = kv[1]
				case "textresults":
					sd.TextResults = strings.Split(kv[1], ",")
				default:
					cs.errf(fname, l.line, "scoped: unknown field %q", kv[0])
				}
			}
			if len(full) > len(rest) {
				sd.Props = rePropID.FindAllString(full[len(rest):], -1)
			}
			cs.Scopes = append(cs.Scopes, sd)
			cur, curLemma = nil, nil
		case "captures":
			if cur == nil {
				cs.errf(fname, l.line, "captures outside a func block")
				continue
			}
			if c := mkClause(rest, l.line, len(cur.Captures)+1); c != nil {
				cur.Captures = append(cur.Captures, c)
			}
		case "owns":
			// owns <expr>: an object that counts as this call's own although it was not allocated by it (the request a
			// release closure belongs to): fresh(x) holds for it, so declared interference treats it like a fresh object
			if cur == nil {
				cs.errf(fname, l.line, "owns outside a func block")
				continue
			}
			if c := mkClause(rest, l.line, len(cur.Owns)+1); c != nil {
				cur.Owns = append(cur.Owns, c)
			}
		case "alsofor":
			if cur != nil {
				cur.AlsoFor = append(cur.AlsoFor, strings.Fields(stripComment(rest))...)
			}
		case "bodyrules":
			// bodyrules Cxx...: a trusted contract whose body is nevertheless executed for these properties, against the empty
			// contract: its own ensures stay assumed, but the preconditions, sinks and protocols of what it calls are obligations
			if cur != nil {
				cur.BodyRules = append(cur.BodyRules, strings.Fields(stripComment(rest))...)
			}
		case "implementers":
			if cur != nil {
				cur.Implementers = true
			}
		case "lemma":
			name, params, err := parseHead(strings.TrimSpace(rest))
			if err != nil {
				cs.errf(fname, l.line, "lemma: %v", err)
				continue
			}
			curLemma = &LemmaDecl{Name: name, Params: params, File: fname, Line: l.line, pkg: pkg}
			cs.Lemmas = append(cs.Lemmas, curLemma)
			cur = nil
		case "assume":
			c := mkClause(rest, l.line, len(cs.Assumes))
			if c != nil {
				cs.Assumes = append(cs.Assumes, &GlobalAssume{Text: c.Text, Expr: c.Expr, File: fname, Line: l.line, pkg: pkg})
			}
			cur, curLemma = nil, nil
		case "requires":
			var scope []string
			outside := false
			if w2, r2 := splitWord(rest); w2 == "in" || w2 == "outside" {
				outside = w2 == "outside"
				if i := strings.Index(r2, ":"); i >= 0 {
					for _, sc := range strings.Split(r2[:i], ",") {
						scope = append(scope, strings.TrimSpace(sc))
					}
					rest = strings.TrimSpace(r2[i+1:])
				}
			}
			if len(scope) > 0 && cur != nil {
				if c := mkClause(rest, l.line, len(cur.Requires)+1); c != nil {
					c.Scope = scope
					c.Outside = outside
					cur.Requires = append(cur.Requires, c)
				}
				continue
			}
			if curLemma != nil {
				if c := mkClause(rest, l.line, len(curLemma.Requires)+1); c != nil {
					curLemma.Requires = append(curLemma.Requires, c)
				}
			} else if cur != nil {
				if c := mkClause(rest, l.line, len(cur.Requires)+1); c != nil {
					cur.Requires = append(cur.Requires, c)
				}
			} else {
				cs.errf(fname, l.line, "requires outside a block")
			}
		case "chaninv", "onrecv":
			txt := rest
			var scope []string
			if w2, r2 := splitWord(txt); w2 == "in" {
				if i := strings.Index(r2, ":"); i >= 0 {
					for _, sc := range strings.Split(r2[:i], ",") {
						scope = append(scope, strings.TrimSpace(sc))
					}
					txt = strings.TrimSpace(r2[i+1:])
				}
			}
			upGhost := ""
			if word == "onrecv" {
				w2, r2 := splitWord(txt)
				if w2 == "requires" {
					txt = r2
				} else if w2 == "update" {
					if i := strings.Index(r2, "="); i > 0 {
						upGhost = strings.TrimSpace(r2[:i])
						txt = strings.TrimSpace(r2[i+1:])
					}
				}
			}
			c := mkClause(txt, l.line, 0)
			if c != nil {
				ga := &GlobalAssume{Scope: scope, Text: c.Text, Expr: c.Expr, File: fname, Line: l.line, pkg: pkg, Props: c.Props}
				if upGhost != "" {
					ga.Ghost = upGhost
					cs.OnRecvUp = append(cs.OnRecvUp, ga)
				} else if word == "chaninv" {
					cs.ChanInvs = append(cs.ChanInvs, ga)
				} else {
					cs.OnRecv = append(cs.OnRecv, ga)
				}
			}
			cur, curLemma = nil, nil
		case "fieldspec":
			// fieldspec pkg.Struct.field SpecName : a function stored in that field implements the closure spec
			w1, r1 := splitWord(rest)
			cs.FieldSpecs[w1] = strings.TrimSpace(stripComment(r1))
			cur, curLemma = nil, nil
		case "chanmsg":
			// chanmsg in Scope: channelName: <expr over m>   (asserted at a send, assumed at a receive)
			txt := rest
			var scope []string
			if w2, r2 := splitWord(txt); w2 == "in" {
				if i := strings.Index(r2, ":"); i >= 0 {
					for _, sc := range strings.Split(r2[:i], ",") {
						scope = append(scope, strings.TrimSpace(sc))
					}
					txt = strings.TrimSpace(r2[i+1:])
				}
			}
			i := strings.Index(txt, ":")
			if i < 0 {
				cs.errf(fname, l.line, "chanmsg: expected '<channel name>: <expr>'")
				continue
			}
			chName := strings.TrimSpace(txt[:i])
			if c := mkClause(txt[i+1:], l.line, 0); c != nil {
				cs.ChanMsgs = append(cs.ChanMsgs, &GlobalAssume{Ghost: chName, Scope: scope, Text: c.Text, Expr: c.Expr, File: fname, Line: l.line, pkg: pkg, Props: c.Props})
			}
			cur, curLemma = nil, nil
		case "monitor":
			// monitor pkg.Struct.field protects a, b, ghost g invariant <expr over self>
			i := strings.Index(rest, " protects ")
			j := strings.Index(rest, " invariant ")
			if i < 0 || j < i {
				cs.errf(fname, l.line, "monitor: expected '<Type>.<field> protects ... invariant ...'")
				continue
			}
			tf := strings.TrimSpace(rest[:i])
			k := strings.LastIndex(tf, ".")
			md := &MonitorDecl{Type: tf[:k], Field: tf[k+1:], pkg: pkg, File: fname, Line: l.line}
			for _, pr := range strings.Split(rest[i+10:j], ",") {
				if pr = strings.TrimSpace(pr); pr != "" {
					md.Protects = append(md.Protects, pr)
				}
			}
			invText := rest[j+11:]
			if r := strings.Index(invText, " interference "); r >= 0 {
				// monitor ... invariant I interference R: the protected state is shared for real. Acquiring the mutex (and any
				// channel operation while it is not held) first forgets the protected state, then assumes I and R, where R relates
				// the state before (old) and after what the other threads did.
				relyText := invText[r+14:]
				tag := ""
				if c := strings.Index(relyText, " // "); c >= 0 {
					tag = relyText[c:]
				}
				invText = invText[:r] + tag
				md.Rely = mkClause(relyText, l.line, 2)
			}
			md.Inv = mkClause(invText, l.line, 1)
			if md.Inv != nil {
				md.Props = md.Inv.Props
				cs.Monitors = append(cs.Monitors, md)
			}
			cur, curLemma = nil, nil
		case "update":
			if cur == nil {
				cs.errf(fname, l.line, "update outside a func block")
				continue
			}
			i := strings.Index(rest, "=")
			if i < 0 {
				cs.errf(fname, l.line, "update without =")
				continue
			}
			g := strings.TrimSpace(rest[:i])
			if c := mkClause(rest[i+1:], l.line, len(cur.Updates)+1); c != nil {
				cur.Updates = append(cur.Updates, &GhostUpdate{Ghost: g, Expr: c.Expr, Text: c.Text, Line: l.line})
			}
		case "assumes":
			if cur == nil {
				cs.errf(fname, l.line, "assumes outside a func block")
				continue
			}
			if c := mkClause(rest, l.line, len(cur.Assumes)+1); c != nil {
				cur.Assumes = append(cur.Assumes, c)
			}
		case "ensures":
			if curLemma != nil {
				if c := mkClause(rest, l.line, len(curLemma.Ensures)+1); c != nil {
					curLemma.Ensures = append(curLemma.Ensures, c)
				}
			} else if cur != nil {
				if c := mkClause(rest, l.line, len(cur.Ensures)+1); c != nil {
					cur.Ensures = append(cur.Ensures, c)
				}
			} else {
				cs.errf(fname, l.line, "ensures outside a block")
			}
		case "loop":
			if cur == nil {
				cs.errf(fname, l.line, "loop outside a func block")
				continue
			}
			m := reLoop.FindStringSubmatch(t)
			if m == nil {
				cs.errf(fname, l.line, "bad loop clause %q", t)
				continue
			}
			n, _ := strconv.Atoi(m[1])
			if m[2] == "invariant" {
				if c := mkClause(m[3], l.line, len(cur.LoopInv[n])+1); c != nil {
					cur.LoopInv[n] = append(cur.LoopInv[n], c)
				}
			} else {
				if c := mkClause(m[3], l.line, 1); c != nil {
					cur.LoopDec[n] = c
				}
			}
		case "modifies":
			if cur == nil {
				cs.errf(fname, l.line, "modifies outside a block")
				continue
			}
			cur.HasMod = true
			for _, m := range strings.Split(stripComment(rest), ",") {
				if m = strings.TrimSpace(m); m != "" && m != "nothing" {
					cur.Modifies = append(cur.Modifies, m)
				}
			}
		case "inplace":
			if cur != nil {
				for _, n := range strings.Split(stripComment(rest), ",") {
					if n = strings.TrimSpace(n); n != "" {
						cur.InPlace = append(cur.InPlace, n)
					}
				}
			}
		case "nopanic":
			// nopanic [// Cxx ...]: panic sites are obligations (only for the listed properties when tags are given)
			if cur != nil {
				cur.NoPanic = true
				cur.NoPanicProps = rePropID.FindAllString(t, -1)
			}
		case "pure":
			if cur != nil {
				cur.Pure = true
				cur.HasMod = true
			}
		case "inline":
			if cur != nil {
				cur.Inline = true
			}
		case "trusted":
			if cur != nil {
				cur.Trusted = true
				cur.Notes = append(cur.Notes, "trusted: "+rest)
			}
		case "property":
			ps := strings.Fields(stripComment(rest))
			if curLemma != nil {
				curLemma.Props = append(curLemma.Props, ps...)
			} else if cur != nil {
				cur.Props = append(cur.Props, ps...)
			}
		case "note":
			if cur != nil {
				cur.Notes = append(cur.Notes, rest)
			}
		default:
			cs.errf(fname, l.line, "unknown directive %q", word)
		}
	}
}

func splitWord(s string) (string, string) {
	s = strings.TrimSpace(s)
	i := strings.IndexAny(s, " \t")
	if i < 0 {
		return s, ""
	}
	return s[:i], strings.TrimSpace(s[i+1:])
}

func parseHead(head string) (string, []FoldParam, error) {
	i := strings.Index(head, "(")
	if i < 0 || !strings.HasSuffix(head, ")") {
		return "", nil, fmt.Errorf("expected name(params): %q", head)
	}
	name := strings.TrimSpace(head[:i])
	var params []FoldParam
	ps := strings.TrimSpace(head[i+1 : len(head)-1])
	if ps != "" {
		for _, p := range splitTop(ps, ',') {
			n, t := splitWord(p)
			params = append(params, FoldParam{Name: n, Type: strings.TrimSpace(t)})
		}
	}
	return name, params, nil
}

func splitTop(s string, sep byte) []string {
	var out []string
	depth := 0
	start := 0
	for i := 0; i < len(s); i++ {
		switch s[i] {
		case '(', '[':
			depth++
		case ')', ']':
			depth--
		default:
			if s[i] == sep && depth == 0 {
				out = append(out, strings.TrimSpace(s[start:i]))
				start = i + 1
			}
		}
	}
	out = append(out, strings.TrimSpace(s[start:]))
	return out
}

// fold name(s []T, a A) int = sum x :: expr
func parseFold(s string) (*FoldDecl, error) {
	i := strings.Index(s, "=")
	for i >= 0 && i+1 < len(s) && (s[i+1] == '=' || (i > 0 && strings.ContainsRune("=!<>", rune(s[i-1])))) {
		j := strings.Index(s[i+2:], "=")
		if j < 0 {
			i = -1
			break
		}
		i = i + 2 + j
	}
	if i < 0 {
		return nil, fmt.Errorf("missing =")
	}
	head, body := strings.TrimSpace(s[:i]), strings.TrimSpace(s[i+1:])
	// head: name(params) resultType
	j := strings.LastIndex(head, ")")
	if j < 0 {
		return nil, fmt.Errorf("bad head")
	}
	name, params, err := parseHead(head[:j+1])
	if err != nil {
		return nil, err
	}
	res := strings.TrimSpace(head[j+1:])
	kind, rest := splitWord(body)
	k := strings.Index(rest, "::")
	if k < 0 {
		return nil, fmt.Errorf("missing ::")
	}
	v := strings.TrimSpace(rest[:k])
	bt := stripComment(strings.TrimSpace(rest[k+2:]))
	e, err := ParseExpr(bt)
	if err != nil {
		return nil, err
	}
	if kind != "sum" && kind != "all" && kind != "count" {
		return nil, fmt.Errorf("unknown fold kind %q", kind)
	}
	return &FoldDecl{Name: name, Params: params, Result: res, Kind: kind, Var: v, BodyText: bt, Body: e}, nil
}
