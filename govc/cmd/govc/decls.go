package main

// Driver side of typeinv / typespec / globalinv / implementers / sweep (see strpred.go).

import (
	"reflect"
	"fmt"
	"go/types"
	"path/filepath"
	"sort"
	"strings"

	"golang.org/x/tools/go/ssa"
)

func hasProp(props []string, prop string) bool {
	for _, p := range props {
		if p == prop {
			return true
		}
	}
	return false
}

func emptyContract(name string) *FuncContract {
	return &FuncContract{Kind: "func", Name: name, LoopInv: map[int][]*Clause{}, LoopDec: map[int]*Clause{}}
}

func (p *Program) globalByName(name string) *ssa.Global {
	i := strings.Index(name, ".")
	if i < 0 {
		return nil
	}
	tp := p.pkgByName(name[:i])
	if tp == nil {
		return nil
	}
	sp := p.ssaPkg(tp)
	if sp == nil {
		return nil
	}
	g, _ := sp.Members[name[i+1:]].(*ssa.Global)
	return g
}

func (p *Program) sortedFuncNames() []string {
	var names []string
	for n := range p.funcs {
		names = append(names, n)
	}
	sort.Strings(names)
	return names
}

// declResults adds the verification tasks that declarations tagged with prop generate.
func (p *Program) declResults(prop string, cfg *PropConfig, results []*FuncResult, done map[string]bool) ([]*FuncResult, []string) {
	var problems []string
	verify := func(name string, c *FuncContract, taggedOnly bool) *FuncResult {
		if done[name] {
			return nil
		}
		done[name] = true
		if c == nil {
			c = emptyContract(name)
		}
		r := p.verifyFunc(name, c)
		r.TaggedOnly = taggedOnly
		results = append(results, r)
		return r
	}
	for _, d := range p.contracts.TypeDecls {
		if !hasProp(d.Props, prop) {
			continue
		}
		switch d.Kind {
		case "jsonname":
			parts := strings.Split(d.Name, ".")
			var st *types.Struct
			if len(parts) == 3 {
				if tp := p.pkgByName(parts[0]); tp != nil {
					if tn, ok := tp.Scope().Lookup(parts[1]).(*types.TypeName); ok {
						st, _ = tn.Type().Underlying().(*types.Struct)
					}
				}
			}
			if st == nil {
				problems = append(problems, fmt.Sprintf("jsonname %s: no such struct type in the loaded program", d.Name))
				continue
			}
			found := false
			for i := 0; i < st.NumFields(); i++ {
				if st.Field(i).Name() != parts[2] {
					continue
				}
				found = true
				name := strings.Split(reflect.StructTag(st.Tag(i)).Get("json"), ",")[0]
				if name == "" {
					name = st.Field(i).Name()
				}
				if name != d.Spec {
					problems = append(problems, fmt.Sprintf("jsonname %s: the field is carried as %q, the API names it %q: a client's %q is ignored", d.Name, name, d.Spec, d.Spec))
				}
			}
			if !found {
				problems = append(problems, fmt.Sprintf("jsonname %s: no such field", d.Name))
			}
		case "jsonfields":
			parts := strings.SplitN(d.Name, ".", 2)
			var st *types.Struct
			if len(parts) == 2 {
				if tp := p.pkgByName(parts[0]); tp != nil {
					if tn, ok := tp.Scope().Lookup(parts[1]).(*types.TypeName); ok {
						st, _ = tn.Type().Underlying().(*types.Struct)
					}
				}
			}
			if st == nil {
				problems = append(problems, fmt.Sprintf("jsonfields %s: no such struct type in the loaded program", d.Name))
				continue
			}
			// custom (own or promoted) MarshalJSON / UnmarshalJSON methods decide the JSON form instead of the fields and their
			// tags: each must be under contract (a method promoted from an embedded struct silently drops the outer fields)
			var named types.Type
			if tp := p.pkgByName(parts[0]); tp != nil {
				if tn, ok := tp.Scope().Lookup(parts[1]).(*types.TypeName); ok {
					named = tn.Type()
				}
			}
			custom := map[string]bool{}
			if named != nil {
				ms := types.NewMethodSet(types.NewPointer(named))
				for _, mname := range []string{"MarshalJSON", "UnmarshalJSON"} {
					sel := ms.Lookup(nil, mname)
					if sel == nil {
						continue
					}
					custom[mname] = true
					fobj, _ := sel.Obj().(*types.Func)
					under := false
					if fobj != nil {
						if sf := p.ssaProg.FuncValue(fobj); sf != nil {
							if c := p.contracts.Funcs[p.funcName(sf)]; c != nil {
								under = true
							}
						}
					}
					if !under {
						where := ""
						if len(sel.Index()) > 1 {
							where = " (promoted from an embedded field: it renders that field only, the other fields of " + d.Name + " are not carried)"
						}
						problems = append(problems, fmt.Sprintf("jsonfields %s: the type has a %s method%s that is not under contract: the JSON form is what that method says, not what the field tags say", d.Name, mname, where))
					}
				}
			}
			names := map[string]string{}
			for i := 0; i < st.NumFields(); i++ {
				f := st.Field(i)
				if it, ok := f.Type().Underlying().(*types.Interface); ok && it.NumMethods() > 0 && !custom["UnmarshalJSON"] {
					problems = append(problems, fmt.Sprintf("jsonfields %s: field %s has the interface type %s and the struct has no UnmarshalJSON: encoding/json cannot decode a non-null value into it, a value does not survive its JSON round trip", d.Name, f.Name(), types.TypeString(f.Type(), func(pk *types.Package) string { return pk.Name() })))
				}
				tag := reflect.StructTag(st.Tag(i)).Get("json")
				name := strings.Split(tag, ",")[0]
				switch {
				case !f.Exported():
					problems = append(problems, fmt.Sprintf("jsonfields %s: field %s is not exported: encoding/json drops it, a value does not survive its JSON round trip", d.Name, f.Name()))
				case name == "-":
					problems = append(problems, fmt.Sprintf("jsonfields %s: field %s is tagged json:\"-\": it is not carried by the encoding, a value does not survive its JSON round trip", d.Name, f.Name()))
				default:
					if name == "" {
						name = f.Name()
					}
					if other, dup := names[strings.ToLower(name)]; dup {
						problems = append(problems, fmt.Sprintf("jsonfields %s: fields %s and %s share the JSON name %q", d.Name, other, f.Name(), name))
					}
					names[strings.ToLower(name)] = f.Name()
				}
			}
		case "typespec":
			spec := p.contracts.Specs[d.Spec]
			if spec == nil {
				problems = append(problems, fmt.Sprintf("typespec %s: unknown spec %s", d.Name, d.Spec))
				continue
			}
			sites := 0
			for _, name := range p.sortedFuncNames() {
				fn := p.funcs[name]
				for _, b := range fn.Blocks {
					for _, ins := range b.Instrs {
						ct, ok := ins.(*ssa.ChangeType)
						if !ok || typeKey(ct.Type()) != d.Name {
							continue
						}
						if typeKey(ct.X.Type()) == d.Name {
							continue
						}
						sites++
						var target *ssa.Function
						switch x := ct.X.(type) {
						case *ssa.MakeClosure:
							target = x.Fn.(*ssa.Function)
						case *ssa.Function:
							target = x
						}
						if target == nil {
							problems = append(problems, fmt.Sprintf("typespec %s: the function converted to %s in %s does not resolve statically (%s)", d.Name, d.Name, name, p.fset.Position(ct.Pos())))
							continue
						}
						results = append(results, &FuncResult{Name: "typespec " + d.Name + " at " + name, SpecChecks: []specCheck{{fn: target, spec: spec}}})
					}
				}
			}
			if sites == 0 {
				problems = append(problems, fmt.Sprintf("typespec %s: no conversion to this type in the loaded program (declaration out of date)", d.Name))
			}
		case "typeinv":
			n := 0
			for _, name := range p.sortedFuncNames() {
				fn := p.funcs[name]
				if fn.Blocks == nil || !buildsType(fn, d.Name) {
					continue
				}
				n++
				c := p.contracts.Funcs[name]
				verify(name, c, c == nil || !hasProp(c.Props, prop))
			}
			if n == 0 {
				problems = append(problems, fmt.Sprintf("typeinv %s: no function builds a value of this type (declaration out of date)", d.Name))
			}
		case "globalinv":
			g := p.globalByName(d.Name)
			if g == nil {
				problems = append(problems, fmt.Sprintf("globalinv %s: no such package-level variable", d.Name))
				continue
			}
			problems = append(problems, p.globalWriters(g, d)...)
			initFn := g.Pkg.Func("init")
			name := p.funcName(initFn)
			if _, ok := p.funcs[name]; !ok {
				p.funcs[name] = initFn
			}
			c := emptyContract(name)
			c.GlobalInvs = []*TypeDecl{d}
			r := p.verifyFunc(name, c)
			r.TaggedOnly = true
			r.Name = name + " (globalinv " + d.Name + ")"
			results = append(results, r)
		}
	}
	// implementers of interface contracts
	for _, cname := range p.contracts.Order {
		c := p.contracts.Funcs[cname]
		if c.Kind != "iface" || !c.Implementers || !hasProp(c.Props, prop) {
			continue
		}
		i := strings.LastIndex(cname, ".")
		tn := cname[:i]
		meth := cname[i+1:]
		j := strings.Index(tn, ".")
		var iface *types.Interface
		if j > 0 {
			if tp := p.pkgByName(tn[:j]); tp != nil {
				if o, ok := tp.Scope().Lookup(tn[j+1:]).(*types.TypeName); ok {
					iface, _ = o.Type().Underlying().(*types.Interface)
				}
			}
		}
		if iface == nil {
			problems = append(problems, fmt.Sprintf("iface contract %s: interface not found", cname))
			continue
		}
		var msig *types.Signature
		for k := 0; k < iface.NumMethods(); k++ {
			if iface.Method(k).Name() == meth {
				msig = iface.Method(k).Type().(*types.Signature)
			}
		}
		if msig == nil {
			problems = append(problems, fmt.Sprintf("iface contract %s: method not found", cname))
			continue
		}
		spec := *c
		spec.Kind = "spec"
		spec.IfaceCheck = true
		spec.Name = cname
		spec.Params = []string{"recv"}
		for k := 0; k < msig.Params().Len(); k++ {
			n := msig.Params().At(k).Name()
			if n == "" || n == "_" {
				n = fmt.Sprintf("arg%d", k)
			}
			spec.Params = append(spec.Params, n)
		}
		impls := p.implementers(iface)
		if len(impls) == 0 {
			problems = append(problems, fmt.Sprintf("iface contract %s: no implementer in the loaded program", cname))
		}
		for _, t := range impls {
			ms := p.ssaProg.MethodSets.MethodSet(t)
			sel := ms.Lookup(nil, meth)
			if sel == nil {
				for k := 0; k < ms.Len(); k++ {
					if ms.At(k).Obj().Name() == meth {
						sel = ms.At(k)
					}
				}
			}
			if sel == nil {
				continue
			}
			f := p.ssaProg.MethodValue(sel)
			if f == nil {
				continue
			}
			if f.Synthetic != "" {
				// wrapper (promoted or pointer-receiver wrapper): verify the declared method
				if o, ok := sel.Obj().(*types.Func); ok {
					if df := p.ssaProg.FuncValue(o); df != nil {
						f = df
					}
				}
			}
			sp := spec
			results = append(results, &FuncResult{Name: "implementer of " + cname, SpecChecks: []specCheck{{fn: f, spec: &sp}}})
		}
	}
	// sweeps
	for _, pk := range cfg.Sweep {
		// "pkg" or "pkg:file1.go,file2.go"; "pkg+generic": bodies of generic functions without contract as well
		var files map[string]bool
		generic := false
		if strings.HasSuffix(pk, "+generic") {
			generic = true
			pk = strings.TrimSuffix(pk, "+generic")
		}
		if i := strings.Index(pk, ":"); i >= 0 {
			files = map[string]bool{}
			for _, f := range strings.Split(pk[i+1:], ",") {
				files[strings.TrimSpace(f)] = true
			}
			pk = pk[:i]
		}
		n := 0
		for _, name := range p.sortedFuncNames() {
			fn := p.funcs[name]
			fp := fnPkg(fn)
			if fn.Blocks == nil || fp == nil || fp.Name() != pk {
				continue
			}
			if files != nil && !files[filepath.Base(p.fset.Position(fn.Pos()).Filename)] {
				continue
			}
			if fn.TypeParams().Len() > 0 && len(fn.TypeArgs()) == 0 {
				// generic body: verified through its contract when it has one
				if p.contracts.Funcs[name] == nil && !generic {
					continue
				}
			}
			c := p.contracts.Funcs[name]
			if c != nil && (c.Trusted || c.Kind != "func") {
				continue
			}
			n++
			verify(name, c, c == nil || !hasProp(c.Props, prop))
		}
		if n == 0 {
			problems = append(problems, fmt.Sprintf("sweep %s: no function found", pk))
		}
	}
	return results, problems
}

// globalWriters: uses of the global that could change it after initialisation.
func (p *Program) globalWriters(g *ssa.Global, d *TypeDecl) []string {
	var out []string
	readOnlyUse := func(v ssa.Value) bool {
		for _, ref := range *v.Referrers() {
			switch r := ref.(type) {
			case *ssa.Lookup, *ssa.Range, *ssa.DebugRef, *ssa.Index, *ssa.Field:
			case *ssa.Call:
				if b, ok := r.Call.Value.(*ssa.Builtin); ok && (b.Name() == "len" || b.Name() == "cap") {
					continue
				}
				return false
			default:
				return false
			}
		}
		return true
	}
	for _, name := range p.sortedFuncNames() {
		fn := p.funcs[name]
		for _, b := range fn.Blocks {
			for _, ins := range b.Instrs {
				var ops []*ssa.Value
				ops = ins.Operands(ops)
				uses := false
				for _, op := range ops {
					if op != nil && *op == ssa.Value(g) {
						uses = true
					}
				}
				if !uses {
					continue
				}
				switch x := ins.(type) {
				case *ssa.UnOp:
					if !readOnlyUse(x) {
						out = append(out, fmt.Sprintf("globalinv %s: the value loaded in %s is used in a way that may modify or leak it (%s)", d.Name, name, p.fset.Position(x.Pos())))
					}
				case *ssa.Store:
					if fn.Name() == "init" && fn.Pkg == g.Pkg {
						continue
					}
					out = append(out, fmt.Sprintf("globalinv %s: assigned outside the package initialiser, in %s (%s)", d.Name, name, p.fset.Position(x.Pos())))
				case *ssa.DebugRef:
				default:
					out = append(out, fmt.Sprintf("globalinv %s: its address is used in %s (%s)", d.Name, name, p.fset.Position(ins.Pos())))
				}
			}
		}
	}
	return out
}

// ---- renamed locals -------------------------------------------------------------

// namedAllocs: the named locals of fn in declaration order.
func namedAllocs(fn *ssa.Function) []*ssa.Alloc {
	var out []*ssa.Alloc
	for _, b := range fn.Blocks {
		for _, ins := range b.Instrs {
			if a, ok := ins.(*ssa.Alloc); ok && a.Comment != "" && !strings.Contains(a.Comment, " ") && !strings.Contains(a.Comment, ".") {
				out = append(out, a)
			}
		}
	}
	return out
}

// localPins: "func|name|type|ordinal" for every local named in a loop invariant of c.
func (p *Program) localPins(name string, c *FuncContract) []string {
	fn := p.funcs[name]
	if fn == nil || c == nil {
		return nil
	}
	ids := map[string]bool{}
	for _, l := range c.LoopInv {
		for _, cl := range l {
			collectIdents(cl.Expr, ids)
		}
	}
	for _, cl := range c.LoopDec {
		collectIdents(cl.Expr, ids)
	}
	var out []string
	for i, prm := range fn.Params {
		out = append(out, fmt.Sprintf("%s|%s|@param|%d", name, prm.Name(), i))
	}
	count := map[string]int{}
	for _, a := range namedAllocs(fn) {
		ts := types.TypeString(a.Type(), nil)
		if ids[a.Comment] {
			out = append(out, fmt.Sprintf("%s|%s|%s|%d", name, a.Comment, ts, count[ts]))
			delete(ids, a.Comment) // first declaration of that name
		}
		count[ts]++
	}
	return out
}

// renamedLocal: the present name of the local that was called `name` in fn when the contracts were pinned.
func (p *Program) renamedLocal(fn *ssa.Function, name string) string {
	key := p.funcName(fn) + "|" + name + "|"
	for _, e := range p.localPinList {
		if !strings.HasPrefix(e, key) {
			continue
		}
		rest := strings.Split(e[len(key):], "|")
		if len(rest) != 2 {
			continue
		}
		var ord int
		fmt.Sscanf(rest[1], "%d", &ord)
		if rest[0] == "@param" {
			if ord < len(fn.Params) {
				return fn.Params[ord].Name()
			}
			continue
		}
		n := 0
		for _, a := range namedAllocs(fn) {
			if types.TypeString(a.Type(), nil) != rest[0] {
				continue
			}
			if n == ord {
				return a.Comment
			}
			n++
		}
	}
	return ""
}
