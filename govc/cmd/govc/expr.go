package main

// Contract expression language: Go-like expressions plus ==>, <==>, old(),
// forall/exists. Hand-written Pratt parser.

import (
	"strconv"
	"fmt"
	"strings"
	"unicode"
)

type Expr interface{ exprNode() }

type (
	EIdent struct{ Name string }
	EInt   struct{ V string }
	EStr   struct{ V string }
	EBool  struct{ V bool }
	ENil   struct{}
	EUnary struct {
		Op string
		X  Expr
	}
	EBinary struct {
		Op   string
		X, Y Expr
	}
	EField struct {
		X    Expr
		Name string
	}
	EIndex struct {
		X, I Expr
	}
	ESlice struct {
		X, Lo, Hi Expr
	}
	ECall struct {
		Fun  string
		Args []Expr
	}
	EQuant struct {
		Forall bool
		Vars   []QVar
		// range form: forall i in lo..hi
		Lo, Hi Expr
		Body   Expr
	}
)

type QVar struct {
	Name string
	Type string
}

func (EIdent) exprNode()  {}
func (EInt) exprNode()    {}
func (EStr) exprNode()    {}
func (EBool) exprNode()   {}
func (ENil) exprNode()    {}
func (EUnary) exprNode()  {}
func (EBinary) exprNode() {}
func (EField) exprNode()  {}
func (EIndex) exprNode()  {}
func (ESlice) exprNode()  {}
func (ECall) exprNode()   {}
func (EQuant) exprNode()  {}

type tok struct {
	kind string // id int str op eof
	text string
}

func lexExpr(s string) ([]tok, error) {
	var toks []tok
	i := 0
	for i < len(s) {
		c := s[i]
		switch {
		case c == ' ' || c == '\t':
			i++
		case unicode.IsLetter(rune(c)) || c == '_':
			j := i
			for j < len(s) && (unicode.IsLetter(rune(s[j])) || unicode.IsDigit(rune(s[j])) || s[j] == '_' || s[j] == '$') {
				j++
			}
			toks = append(toks, tok{"id", s[i:j]})
			i = j
		case unicode.IsDigit(rune(c)):
			j := i
			for j < len(s) && unicode.IsDigit(rune(s[j])) {
				j++
			}
			toks = append(toks, tok{"int", s[i:j]})
			i = j
		case c == '"':
			j := i + 1
			for j < len(s) && s[j] != '"' {
				if s[j] == '\\' {
					j++
				}
				j++
			}
			if j >= len(s) {
				return nil, fmt.Errorf("unterminated string")
			}
			lit := s[i+1 : j]
			if strings.Contains(lit, "\\") {
				// Go escapes (\t, \n, ...)
				if u, err := strconv.Unquote("\"" + lit + "\""); err == nil {
					lit = u
				}
			}
			toks = append(toks, tok{"str", lit})
			i = j + 1
		default:
			ops := []string{"<==>", "==>", "::", "..", "==", "!=", "<=", ">=", "&&", "||", "<", ">", "+", "-", "*", "/", "%", "!", "(", ")", "[", "]", ",", ".", ":", "?"}
			found := false
			for _, op := range ops {
				if strings.HasPrefix(s[i:], op) {
					toks = append(toks, tok{"op", op})
					i += len(op)
					found = true
					break
				}
			}
			if !found {
				return nil, fmt.Errorf("unexpected character %q", c)
			}
		}
	}
	toks = append(toks, tok{"eof", ""})
	return toks, nil
}

type exprParser struct {
	toks []tok
	pos  int
}

func ParseExpr(s string) (e Expr, err error) {
	toks, err := lexExpr(s)
	if err != nil {
		return nil, err
	}
	p := &exprParser{toks: toks}
	defer func() {
		if r := recover(); r != nil {
			err = fmt.Errorf("%v", r)
		}
	}()
	e = p.parse(0)
	if p.peek().kind != "eof" {
		return nil, fmt.Errorf("unexpected %q", p.peek().text)
	}
	return e, nil
}

func (p *exprParser) peek() tok { return p.toks[p.pos] }
func (p *exprParser) next() tok { t := p.toks[p.pos]; p.pos++; return t }
func (p *exprParser) isOp(s string) bool {
	t := p.peek()
	return t.kind == "op" && t.text == s
}
func (p *exprParser) expect(s string) {
	if !p.isOp(s) {
		panic(fmt.Sprintf("expected %q, found %q", s, p.peek().text))
	}
	p.pos++
}

var binPrec = map[string]int{
	"<==>": 1, "==>": 2, "||": 3, "&&": 4,
	"==": 5, "!=": 5, "<": 5, "<=": 5, ">": 5, ">=": 5,
	"+": 6, "-": 6, "*": 7, "/": 7, "%": 7,
}

func (p *exprParser) parse(minPrec int) Expr {
	lhs := p.parseUnary()
	for {
		t := p.peek()
		if t.kind != "op" {
			return lhs
		}
		prec, ok := binPrec[t.text]
		if !ok || prec < minPrec {
			return lhs
		}
		p.pos++
		var rhs Expr
		if t.text == "==>" {
			rhs = p.parse(prec) // right associative
		} else {
			rhs = p.parse(prec + 1)
		}
		lhs = EBinary{Op: t.text, X: lhs, Y: rhs}
	}
}

func (p *exprParser) parseUnary() Expr {
	if p.isOp("!") {
		p.pos++
		return EUnary{Op: "!", X: p.parseUnary()}
	}
	if p.isOp("-") {
		p.pos++
		return EUnary{Op: "-", X: p.parseUnary()}
	}
	return p.parsePostfix(p.parsePrimary())
}

func (p *exprParser) parsePostfix(x Expr) Expr {
	for {
		switch {
		case p.isOp("."):
			p.pos++
			t := p.next()
			if t.kind != "id" {
				panic("expected field name")
			}
			x = EField{X: x, Name: t.text}
		case p.isOp("["):
			p.pos++
			var lo, hi Expr
			if p.isOp(":") {
				p.pos++
				if !p.isOp("]") {
					hi = p.parse(0)
				}
				p.expect("]")
				x = ESlice{X: x, Lo: nil, Hi: hi}
				continue
			}
			lo = p.parse(0)
			if p.isOp(":") {
				p.pos++
				if !p.isOp("]") {
					hi = p.parse(0)
				}
				p.expect("]")
				x = ESlice{X: x, Lo: lo, Hi: hi}
				continue
			}
			p.expect("]")
			x = EIndex{X: x, I: lo}
		default:
			return x
		}
	}
}

func (p *exprParser) parseTypeText() string {
	// a type: sequence of tokens up to "," or "::" at depth 0
	var b strings.Builder
	depth := 0
	for {
		t := p.peek()
		if t.kind == "eof" {
			break
		}
		if t.kind == "op" && depth == 0 && (t.text == "," || t.text == "::") {
			break
		}
		if t.kind == "op" && (t.text == "[" || t.text == "(") {
			depth++
		}
		if t.kind == "op" && (t.text == "]" || t.text == ")") {
			depth--
		}
		b.WriteString(t.text)
		p.pos++
	}
	return b.String()
}

func (p *exprParser) parsePrimary() Expr {
	t := p.next()
	switch t.kind {
	case "int":
		return EInt{V: t.text}
	case "str":
		return EStr{V: t.text}
	case "id":
		switch t.text {
		case "true":
			return EBool{V: true}
		case "false":
			return EBool{V: false}
		case "nil":
			return ENil{}
		case "forall", "exists":
			q := EQuant{Forall: t.text == "forall"}
			name := p.next()
			if name.kind != "id" {
				panic("expected bound variable")
			}
			if p.peek().kind == "id" && p.peek().text == "in" {
				p.pos++
				q.Vars = []QVar{{Name: name.text, Type: "int"}}
				q.Lo = p.parse(6)
				p.expect("..")
				q.Hi = p.parse(6)
			} else {
				ty := p.parseTypeText()
				q.Vars = append(q.Vars, QVar{Name: name.text, Type: ty})
				for p.isOp(",") {
					p.pos++
					n2 := p.next()
					ty2 := p.parseTypeText()
					q.Vars = append(q.Vars, QVar{Name: n2.text, Type: ty2})
				}
			}
			p.expect("::")
			q.Body = p.parse(0)
			return q
		}
		if p.isOp("(") {
			p.pos++
			var args []Expr
			for !p.isOp(")") {
				args = append(args, p.parse(0))
				if p.isOp(",") {
					p.pos++
				}
			}
			p.expect(")")
			return ECall{Fun: t.text, Args: args}
		}
		return EIdent{Name: t.text}
	case "op":
		if t.text == "(" {
			e := p.parse(0)
			p.expect(")")
			return e
		}
	}
	panic(fmt.Sprintf("unexpected %q", t.text))
}

func exprString(e Expr) string {
	switch x := e.(type) {
	case EIdent:
		return x.Name
	case EInt:
		return x.V
	case EStr:
		return fmt.Sprintf("%q", x.V)
	case EBool:
		return fmt.Sprint(x.V)
	case ENil:
		return "nil"
	case EUnary:
		return x.Op + exprString(x.X)
	case EBinary:
		return "(" + exprString(x.X) + " " + x.Op + " " + exprString(x.Y) + ")"
	case EField:
		return exprString(x.X) + "." + x.Name
	case EIndex:
		return exprString(x.X) + "[" + exprString(x.I) + "]"
	case ESlice:
		lo, hi := "", ""
		if x.Lo != nil {
			lo = exprString(x.Lo)
		}
		if x.Hi != nil {
			hi = exprString(x.Hi)
		}
		return exprString(x.X) + "[" + lo + ":" + hi + "]"
	case ECall:
		var as []string
		for _, a := range x.Args {
			as = append(as, exprString(a))
		}
		return x.Fun + "(" + strings.Join(as, ", ") + ")"
	case EQuant:
		k := "exists"
		if x.Forall {
			k = "forall"
		}
		return k + " ... :: " + exprString(x.Body)
	}
	return "?"
}
