package main

// Built-in models of library functions (assumptions, listed in the evidence).

import (
	"os"
	"fmt"
	"go/types"
	"strings"

	"golang.org/x/tools/go/ssa"
)

type externModel func(ex *Exec, fr *Frame, callee *ssa.Function, args []Val, st *State, k CallCont)

var externModels map[string]externModel

func init() {
	externModels = map[string]externModel{}
	bigBin := func(op func(a, b string) string) externModel {
		return func(ex *Exec, fr *Frame, callee *ssa.Function, args []Val, st *State, k CallCont) {
			x := ex.bigOperand(fr, st, args[1])
			y := ex.bigOperand(fr, st, args[2])
			r := Term{op(x.S, y.S), SInt}
			ex.bigAssign(fr, st, args[0], r)
			if args[0].K == VTerm {
				k(st, tv(Term{app("oi_some", r.S), SOptInt}), false)
				return
			}
			k(st, args[0], false)
		}
	}
	bigUn := func(op func(a string) string) externModel {
		return func(ex *Exec, fr *Frame, callee *ssa.Function, args []Val, st *State, k CallCont) {
			x := ex.bigOperand(fr, st, args[1])
			ex.bigAssign(fr, st, args[0], Term{op(x.S), SInt})
			k(st, args[0], false)
		}
	}
	mulTerm := func(a, b string) string {
		if _, ok := parseSmallInt(a); ok {
			return app("*", a, b)
		}
		if _, ok := parseSmallInt(b); ok {
			return app("*", a, b)
		}
		return app("imul", a, b)
	}
	externModels["(*math/big.Int).Add"] = bigBin(func(a, b string) string { return app("+", a, b) })
	externModels["(*math/big.Int).Sub"] = bigBin(func(a, b string) string { return app("-", a, b) })
	externModels["(*math/big.Int).Mul"] = bigBin(mulTerm)
	// the four divisions panic on a zero divisor
	bigDiv := func(what string, op func(a, b string) string) externModel {
		m := bigBin(op)
		return func(ex *Exec, fr *Frame, callee *ssa.Function, args []Val, st *State, k CallCont) {
			y := ex.bigOperand(fr, st, args[2])
			ex.obligation(fr, st, "nopanic", "division by zero in (*big.Int)."+what, not(app("=", y.S, "0")), true)
			m(ex, fr, callee, args, st, k)
		}
	}
	externModels["(*math/big.Int).Div"] = bigDiv("Div", func(a, b string) string { return app("ediv", a, b) })
	externModels["(*math/big.Int).Mod"] = bigDiv("Mod", func(a, b string) string { return app("emod", a, b) })
	externModels["(*math/big.Int).Quo"] = bigDiv("Quo", func(a, b string) string { return app("go_div", a, b) })
	externModels["(*math/big.Int).Rem"] = bigDiv("Rem", func(a, b string) string { return app("go_mod", a, b) })
	externModels["(*math/big.Int).Neg"] = bigUn(func(a string) string { return app("-", a) })
	externModels["(*math/big.Int).Abs"] = bigUn(func(a string) string { return ite(app(">=", a, "0"), a, app("-", a)) })
	externModels["(*math/big.Int).Set"] = bigUn(func(a string) string { return a })
	externModels["(*math/big.Int).SetInt64"] = func(ex *Exec, fr *Frame, callee *ssa.Function, args []Val, st *State, k CallCont) {
		ex.bigAssign(fr, st, args[0], ex.toTerm(st, args[1], nil))
		k(st, args[0], false)
	}
	externModels["(*math/big.Int).SetUint64"] = externModels["(*math/big.Int).SetInt64"]
	externModels["(*math/big.Int).Cmp"] = func(ex *Exec, fr *Frame, callee *ssa.Function, args []Val, st *State, k CallCont) {
		x := ex.bigOperand(fr, st, args[0])
		y := ex.bigOperand(fr, st, args[1])
		k(st, tv(Term{ite(app("<", x.S, y.S), "(- 1)", ite(app("=", x.S, y.S), "0", "1")), SInt}), false)
	}
	externModels["(*math/big.Int).Sign"] = func(ex *Exec, fr *Frame, callee *ssa.Function, args []Val, st *State, k CallCont) {
		x := ex.bigOperand(fr, st, args[0])
		k(st, tv(Term{ite(app("<", x.S, "0"), "(- 1)", ite(app("=", x.S, "0"), "0", "1")), SInt}), false)
	}
	externModels["(*math/big.Int).Uint64"] = func(ex *Exec, fr *Frame, callee *ssa.Function, args []Val, st *State, k CallCont) {
		x := ex.bigOperand(fr, st, args[0])
		// low 64 bits of |x|
		abs := ite(app(">=", x.S, "0"), x.S, app("-", x.S))
		k(st, tv(Term{app("mod", abs, pow2(64)), SInt}), false)
	}
	externModels["(*math/big.Int).Int64"] = func(ex *Exec, fr *Frame, callee *ssa.Function, args []Val, st *State, k CallCont) {
		x := ex.bigOperand(fr, st, args[0])
		w := app("mod", x.S, pow2(64))
		k(st, tv(Term{ite(app(">=", w, pow2(63)), app("-", w, pow2(64)), w), SInt}), false)
	}
	externModels["(*math/big.Int).IsInt64"] = func(ex *Exec, fr *Frame, callee *ssa.Function, args []Val, st *State, k CallCont) {
		x := ex.bigOperand(fr, st, args[0])
		k(st, tv(Term{and(app(">=", x.S, "(- 9223372036854775808)"), app("<=", x.S, "9223372036854775807")), SBool}), false)
	}
	externModels["(*math/big.Int).IsUint64"] = func(ex *Exec, fr *Frame, callee *ssa.Function, args []Val, st *State, k CallCont) {
		x := ex.bigOperand(fr, st, args[0])
		k(st, tv(Term{and(app(">=", x.S, "0"), app("<=", x.S, "18446744073709551615")), SBool}), false)
	}
	externModels["(*math/big.Int).String"] = func(ex *Exec, fr *Frame, callee *ssa.Function, args []Val, st *State, k CallCont) {
		ex.vc.declareFun("int_str", []string{SInt}, SStr)
		if args[0].K == VTerm {
			// nil receiver prints "<nil>"
			ex.vc.declareFun("optint_str", []string{SOptInt}, SStr)
			if !ex.vc.optintStrAxiom {
				// a present number prints as its integer does
				ex.vc.optintStrAxiom = true
				ex.vc.extraAxioms = append(ex.vc.extraAxioms, "(assert (forall ((v Int)) (! (= (optint_str (oi_some v)) (int_str v)) :pattern ((optint_str (oi_some v))))))")
				ex.vc.extraAxioms = append(ex.vc.extraAxioms, "(assert (forall ((o OptInt)) (! (=> (not (= o oi_none)) (= (optint_str o) (int_str (oi_val o)))) :pattern ((optint_str o)))))")
			}
			k(st, tv(Term{app("optint_str", args[0].T.S), SStr}), false)
			return
		}
		x := ex.bigOperand(fr, st, args[0])
		k(st, tv(Term{app("int_str", x.S), SStr}), false)
	}
	externModels["math/big.NewInt"] = func(ex *Exec, fr *Frame, callee *ssa.Function, args []Val, st *State, k CallCont) {
		k(st, ex.newBigCell(st, ex.toTerm(st, args[0], nil), false), false)
	}
	externModels["(*math/big.Int).SetString"] = func(ex *Exec, fr *Frame, callee *ssa.Function, args []Val, st *State, k CallCont) {
		s := ex.toTerm(st, args[1], nil)
		base := ex.toTerm(st, args[2], nil)
		ex.vc.declareFun("str_int_ok", []string{SStr, SInt}, SBool)
		ex.vc.declareFun("str_int", []string{SStr, SInt}, SInt)
		ok := Term{app("str_int_ok", s.S, base.S), SBool}
		ex.bigAssign(fr, st, args[0], Term{app("str_int", s.S, base.S), SInt})
		// on failure the result pointer is nil
		res := ex.toTerm(st, args[0], types.NewPointer(bigIntType(ex)))
		k(st, Val{K: VTuple, Tup: []Val{tv(Term{ite(ok.S, res.S, "oi_none"), SOptInt}), tv(ok)}}, false)
	}
	// big.Rat
	externModels["(*math/big.Rat).Num"] = func(ex *Exec, fr *Frame, callee *ssa.Function, args []Val, st *State, k CallCont) {
		x := ex.ratOperand(fr, st, args[0])
		k(st, tv(Term{app("oi_some", app("rat_num", x.S)), SOptInt}), false)
	}
	externModels["(*math/big.Rat).Denom"] = func(ex *Exec, fr *Frame, callee *ssa.Function, args []Val, st *State, k CallCont) {
		x := ex.ratOperand(fr, st, args[0])
		k(st, tv(Term{app("oi_some", app("rat_den", x.S)), SOptInt}), false)
	}
	ratBin := func(op string) externModel {
		return func(ex *Exec, fr *Frame, callee *ssa.Function, args []Val, st *State, k CallCont) {
			x := ex.ratOperand(fr, st, args[1])
			y := ex.ratOperand(fr, st, args[2])
			ex.ratAssign(fr, st, args[0], Term{app(op, x.S, y.S), SReal})
			k(st, args[0], false)
		}
	}
	externModels["(*math/big.Rat).Add"] = ratBin("+")
	externModels["(*math/big.Rat).Sub"] = ratBin("-")
	externModels["(*math/big.Rat).Mul"] = ratBin("*")
	externModels["(*math/big.Rat).Set"] = func(ex *Exec, fr *Frame, callee *ssa.Function, args []Val, st *State, k CallCont) {
		x := ex.ratOperand(fr, st, args[1])
		ex.ratAssign(fr, st, args[0], x)
		k(st, args[0], false)
	}
	externModels["(*math/big.Rat).Cmp"] = func(ex *Exec, fr *Frame, callee *ssa.Function, args []Val, st *State, k CallCont) {
		x := ex.ratOperand(fr, st, args[0])
		y := ex.ratOperand(fr, st, args[1])
		k(st, tv(Term{ite(app("<", x.S, y.S), "(- 1)", ite(app("=", x.S, y.S), "0", "1")), SInt}), false)
	}
	externModels["(*math/big.Rat).Sign"] = func(ex *Exec, fr *Frame, callee *ssa.Function, args []Val, st *State, k CallCont) {
		x := ex.ratOperand(fr, st, args[0])
		k(st, tv(Term{ite(app("<", x.S, "0.0"), "(- 1)", ite(app("=", x.S, "0.0"), "0", "1")), SInt}), false)
	}
	externModels["math/big.NewRat"] = func(ex *Exec, fr *Frame, callee *ssa.Function, args []Val, st *State, k CallCont) {
		a := ex.toTerm(st, args[0], nil)
		b := ex.toTerm(st, args[1], nil)
		ex.obligation(fr, st, "nopanic", "division by zero in NewRat", not(app("=", b.S, "0")), true)
		k(st, ex.newBigCell(st, Term{app("/", app("to_real", a.S), app("to_real", b.S)), SReal}, true), false)
	}
	// SetFrac(a, b) panics when b is zero
	externModels["(*math/big.Rat).SetFrac"] = func(ex *Exec, fr *Frame, callee *ssa.Function, args []Val, st *State, k CallCont) {
		a := ex.bigOperand(fr, st, args[1])
		b := ex.bigOperand(fr, st, args[2])
		ex.obligation(fr, st, "nopanic", "division by zero in (*big.Rat).SetFrac", not(app("=", b.S, "0")), true)
		ex.ratAssign(fr, st, args[0], Term{app("/", app("to_real", a.S), app("to_real", b.S)), SReal})
		k(st, args[0], false)
	}
	// Quo(x, y) panics when y is zero; Inv(x) when x is
	externModels["(*math/big.Rat).Quo"] = func(ex *Exec, fr *Frame, callee *ssa.Function, args []Val, st *State, k CallCont) {
		x := ex.ratOperand(fr, st, args[1])
		y := ex.ratOperand(fr, st, args[2])
		ex.obligation(fr, st, "nopanic", "division by zero in (*big.Rat).Quo", not(app("=", y.S, "0.0")), true)
		ex.ratAssign(fr, st, args[0], Term{app("/", x.S, y.S), SReal})
		k(st, args[0], false)
	}
	externModels["(*math/big.Rat).Inv"] = func(ex *Exec, fr *Frame, callee *ssa.Function, args []Val, st *State, k CallCont) {
		x := ex.ratOperand(fr, st, args[1])
		ex.obligation(fr, st, "nopanic", "division by zero in (*big.Rat).Inv", not(app("=", x.S, "0.0")), true)
		ex.ratAssign(fr, st, args[0], Term{app("/", "1.0", x.S), SReal})
		k(st, args[0], false)
	}
	externModels["(*math/big.Rat).SetString"] = func(ex *Exec, fr *Frame, callee *ssa.Function, args []Val, st *State, k CallCont) {
		s := ex.toTerm(st, args[1], nil)
		ex.vc.declareFun("str_rat_ok", []string{SStr}, SBool)
		ex.vc.declareFun("str_rat", []string{SStr}, SReal)
		ok := Term{app("str_rat_ok", s.S), SBool}
		ex.ratAssign(fr, st, args[0], Term{app("str_rat", s.S), SReal})
		res := ex.toTerm(st, args[0], nil)
		k(st, Val{K: VTuple, Tup: []Val{tv(Term{ite(ok.S, res.S, "or_none"), SOptRat}), tv(ok)}}, false)
	}
	externModels["(*math/big.Rat).String"] = func(ex *Exec, fr *Frame, callee *ssa.Function, args []Val, st *State, k CallCont) {
		x := ex.ratOperand(fr, st, args[0])
		ex.vc.declareFun("rat_str", []string{SReal}, SStr)
		k(st, tv(Term{app("rat_str", x.S), SStr}), false)
	}
	// errors and formatting
	newErr := func(ex *Exec, fr *Frame, callee *ssa.Function, args []Val, st *State, k CallCont) {
		e := ex.vc.fresh("err", SAny)
		st.assume(app("(_ is any_other)", e.S))
		k(st, tv(e), false)
	}
	for _, n := range []string{"errors.New", "fmt.Errorf", "github.com/pkg/errors.New", "github.com/pkg/errors.Errorf"} {
		externModels[n] = newErr
	}
	wrapErr := func(ex *Exec, fr *Frame, callee *ssa.Function, args []Val, st *State, k CallCont) {
		in := ex.toTerm(st, args[0], nil)
		e := ex.vc.fresh("werr", SAny)
		st.assume(app("=", app("=", e.S, "any_nil"), app("=", in.S, "any_nil")))
		st.assume(implies(not(app("=", e.S, "any_nil")), app("(_ is any_other)", e.S)))
		ex.vc.declareFun("err_cause", []string{SAny}, SAny)
		st.assume(app("=", app("err_cause", e.S), in.S))
		k(st, tv(e), false)
	}
	for _, n := range []string{"github.com/pkg/errors.Wrap", "github.com/pkg/errors.Wrapf", "github.com/pkg/errors.WithStack", "github.com/pkg/errors.WithMessage"} {
		externModels[n] = wrapErr
	}
	externModels["fmt.Sprintf"] = func(ex *Exec, fr *Frame, callee *ssa.Function, args []Val, st *State, k CallCont) {
		k(st, tv(ex.sprintf(st, args)), false)
	}
	externModels["fmt.Sprint"] = func(ex *Exec, fr *Frame, callee *ssa.Function, args []Val, st *State, k CallCont) {
		va := ex.toTerm(st, args[0], nil)
		if lit, ok := ex.vc.seqLits[va.S]; ok && len(lit) == 1 {
			ex.vc.declareFun("sprint1", []string{SAny}, SStr)
			k(st, tv(Term{app("sprint1", lit[0].S), SStr}), false)
			return
		}
		k(st, tv(ex.vc.fresh("sprint", SStr)), false)
	}
	// in-place library sorts: the slice keeps its length, its contents are a permutation (not tracked)
	sortModel := func(ex *Exec, fr *Frame, callee *ssa.Function, args []Val, st *State, k CallCont) {
		a := args[0]
		if a.K == VTerm && strings.HasPrefix(a.T.Sort, "Seq_") {
			n := ex.vc.fresh("sorted", a.T.Sort)
			st.assume(app("=", app("sq_len_"+a.T.Sort, n.S), app("sq_len_"+a.T.Sort, a.T.S)))
			if a.Prov != nil {
				ex.store(st, a.Prov, tv(n))
			} else {
				ex.vc.note("library sort of a slice of unknown origin at %s: the reordering is not tracked", ex.where())
			}
		}
		k(st, Val{}, false)
	}
	externModels["sort.Strings"] = sortModel
	externModels["sort.Ints"] = sortModel
	noop := func(ex *Exec, fr *Frame, callee *ssa.Function, args []Val, st *State, k CallCont) {
		k(st, ex.resultVal(st, callee.Signature, "lib"), false)
	}
	externModels["(*sync.Mutex).Lock"] = func(ex *Exec, fr *Frame, callee *ssa.Function, args []Val, st *State, k CallCont) {
		ex.monitorEvent(fr, st, args[0], true)
		k(st, Val{}, false)
	}
	externModels["(*sync.Mutex).Unlock"] = func(ex *Exec, fr *Frame, callee *ssa.Function, args []Val, st *State, k CallCont) {
		ex.monitorEvent(fr, st, args[0], false)
		k(st, Val{}, false)
	}
	// mutexes have no state a contract can mention; mutual exclusion itself is an assumption about sync
	for _, n := range []string{"fmt.Println", "fmt.Printf", "fmt.Print", "(*sync.WaitGroup).Add", "(*sync.WaitGroup).Done", "(*sync.WaitGroup).Wait",
		"(*sync.RWMutex).Lock", "(*sync.RWMutex).Unlock", "(*sync.RWMutex).RLock", "(*sync.RWMutex).RUnlock"} {
		externModels[n] = noop
	}
}

func bigIntType(ex *Exec) types.Type {
	for _, p := range ex.vc.prog.allTypesPkgs {
		if p.Path() == "math/big" {
			return p.Scope().Lookup("Int").Type()
		}
	}
	return types.Typ[types.Int]
}

// newBigCell: a fresh anonymous cell holding a big.Int (or big.Rat) value.
func (ex *Exec) newBigCell(st *State, v Term, rat bool) Val {
	vc := ex.vc
	vc.cellCtr++
	name := "bigtmp"
	var ty types.Type
	for _, p := range vc.prog.allTypesPkgs {
		if p.Path() == "math/big" {
			if rat {
				ty = p.Scope().Lookup("Rat").Type()
			} else {
				ty = p.Scope().Lookup("Int").Type()
			}
		}
	}
	c := &Cell{id: vc.cellCtr, name: name, typ: ty, sort: v.Sort}
	st.cells[c] = tv(v)
	return Val{K: VPtr, P: &Ptr{Kind: PCell, Cell: c, Typ: ty}}
}

func (ex *Exec) bigOperand(fr *Frame, st *State, v Val) Term {
	switch v.K {
	case VPtr:
		return ex.load(st, v.P).T
	case VTerm:
		if v.T.Sort == SOptInt {
			ex.obligation(fr, st, "nopanic", "nil big.Int operand", not(app("=", v.T.S, "oi_none")), true)
			return Term{app("oi_val", v.T.S), SInt}
		}
		return v.T
	}
	ex.vc.fatalf("big.Int operand of unexpected shape at %s", ex.where())
	return Term{"0", SInt}
}

func (ex *Exec) bigAssign(fr *Frame, st *State, recv Val, v Term) {
	if call, ok := ex.cur.(ssa.CallInstruction); ok && len(call.Common().Args) > 0 && call.Common().StaticCallee() != nil && ex.vc.collecting == 0 {
		if where, esc := ex.vc.prog.escapedBefore(ex.cur, call.Common().Args[0]); esc {
			if tc := ex.topContract(); tc != nil && len(ex.vc.curProps) == 0 {
				ex.vc.curProps = append(append([]string{}, tc.Props...), tc.AlsoFor...)
			}
			ex.obligationFull(fr, st, "frame", "in-place mutation of a big.Int after a pointer to it was stored or handed out at "+shortFile(where)+" (the holder's value changes behind its back)", "false", false, fmt.Sprintf("bigint-escaped@%d", ex.siteOrdinal(ex.cur)), true)
			ex.vc.curProps = nil
		}
	}
	if recv.K == VPtr {
		ex.store(st, recv.P, tv(v))
		return
	}
	if os.Getenv("GOVC_DEBUG_BIG") != "" {
		call, ok := ex.cur.(ssa.CallInstruction)
		fmt.Fprintf(os.Stderr, "bigAssign at %s recvK=%d cur=%T ok=%v\n", ex.where(), recv.K, ex.cur, ok)
		if ok {
			fmt.Fprintf(os.Stderr, "   static=%v arg0=%v owned=%v\n", call.Common().StaticCallee(), call.Common().Args, ex.vc.prog.ownedBig(call.Common().Args[0]))
		}
	}
	if recv.K == VTerm {
		// not allocated on this path: it must at least be this function's own object (bigown.go)
		if call, ok := ex.cur.(ssa.CallInstruction); ok && len(call.Common().Args) > 0 && call.Common().StaticCallee() != nil && !ex.vc.prog.ownedBig(call.Common().Args[0]) {
			if tc := ex.topContract(); tc != nil && len(ex.vc.curProps) == 0 {
				// counts for every property the function is verified for (also those it only contributes tagged clauses to)
				ex.vc.curProps = append(append([]string{}, tc.Props...), tc.AlsoFor...)
				defer func() { ex.vc.curProps = nil }()
			}
			ex.obligationFull(fr, st, "frame", "in-place mutation of a big.Int this function did not allocate (it may be shared: a constant of a cached program, an id already handed out)", "false", false, fmt.Sprintf("bigint@%d", ex.siteOrdinal(ex.cur)), true)
		}
	}
	if recv.K == VTerm && recv.Prov != nil {
		// the big.Int behind a pointer loaded from a field or local: the new value is written
		// back to that location (sound when no other pointer to the same big.Int is live)
		ex.vc.note("in-place big.Int update through a loaded pointer at %s: written back to the location it was loaded from (aliases of that pointer are not tracked)", ex.where())
		ex.store(st, recv.Prov, tv(Term{app("oi_some", v.S), SOptInt}))
		return
	}
	ex.vc.fatalf("frame: in-place mutation of a big.Int that was not allocated in this function (%s)", ex.where())
}

func (ex *Exec) ratOperand(fr *Frame, st *State, v Val) Term {
	switch v.K {
	case VPtr:
		return ex.load(st, v.P).T
	case VTerm:
		if v.T.Sort == SOptRat {
			ex.obligation(fr, st, "nopanic", "nil big.Rat operand", not(app("=", v.T.S, "or_none")), true)
			return Term{app("or_val", v.T.S), SReal}
		}
		return v.T
	}
	ex.vc.fatalf("big.Rat operand of unexpected shape at %s", ex.where())
	return Term{"0.0", SReal}
}

func (ex *Exec) ratAssign(fr *Frame, st *State, recv Val, v Term) {
	if recv.K == VPtr {
		ex.store(st, recv.P, tv(v))
		return
	}
	if recv.K == VTerm && recv.Prov != nil {
		// the big.Rat behind a pointer held in a local or field: same rule as for big.Int (bigown.go)
		if call, ok := ex.cur.(ssa.CallInstruction); ok && len(call.Common().Args) > 0 && call.Common().StaticCallee() != nil && !ex.vc.prog.ownedBig(call.Common().Args[0]) {
			ex.obligationFull(fr, st, "frame", "in-place mutation of a big.Rat this function did not allocate", "false", false, fmt.Sprintf("bigrat@%d", ex.siteOrdinal(ex.cur)), true)
		}
		ex.store(st, recv.Prov, tv(Term{app("or_some", v.S), SOptRat}))
		return
	}
	ex.vc.fatalf("frame: in-place mutation of a big.Rat that was not allocated in this function (%s)", ex.where())
}

// sprintf: an uninterpreted function of the constant format and the arguments.
func (ex *Exec) sprintf(st *State, args []Val) Term {
	vc := ex.vc
	f := ex.toTerm(st, args[0], nil)
	format := ""
	for s, n := range vc.strLits {
		if n == f.S {
			format = s
		}
	}
	va := ex.toTerm(st, args[1], nil)
	lit, ok := vc.seqLits[va.S]
	if format == "" || (!ok && va.S != "sq_empty_"+va.Sort) {
		return vc.fresh("sprintf", SStr)
	}
	if vc.fmtIDs == nil {
		vc.fmtIDs = map[string]int{}
	}
	id, ok := vc.fmtIDs[format]
	if !ok {
		id = len(vc.fmtIDs) + 1
		vc.fmtIDs[format] = id
	}
	name := fmt.Sprintf("sprintf_%d_%d", id, len(lit))
	var sorts, as []string
	for _, a := range lit {
		sorts = append(sorts, SAny)
		as = append(as, a.S)
	}
	vc.declareFun(name, sorts, SStr)
	if len(lit) == 0 {
		return Term{name, SStr}
	}
	vc.sprintfFormats[name] = format
	return Term{app(name, as...), SStr}
}

var _ = strings.Contains

// pureLib: library functions modelled as deterministic uninterpreted functions of their arguments
// (no effect on any state, same arguments give the same result). Listed in the evidence as assumptions.
var pureLib = map[string]bool{
	"strings.ToUpper": true, "strings.ToLower": true, "strings.TrimSpace": true, "strings.HasPrefix": true, "strings.HasSuffix": true,
	"strings.Contains": true, "strings.Index": true, "strings.Split": true, "strings.SplitAfter": true, "strings.IndexFunc": true, "strings.SplitN": true, "strings.Join": true, "strings.Repeat": true,
	"strings.ReplaceAll": true, "strings.Replace": true, "strings.TrimPrefix": true, "strings.TrimSuffix": true, "strings.EqualFold": true,
	"strconv.Itoa": true, "strconv.FormatInt": true, "strconv.Quote": true,
	"(net/url.Values).Get": true, "(net/url.Values).Has": true, "(*net/url.URL).Query": true, "(net/http.Header).Get": true,
	"(*net/http.Request).Context": true, "github.com/go-chi/chi/v5.URLParam": true,
	"regexp.MustCompile": true, "(*regexp.Regexp).MatchString": true, "(*regexp.Regexp).FindAllStringSubmatch": true, "(*regexp.Regexp).FindStringSubmatch": true,
	"(time.Time).Format": true, "(time.Time).UTC": true, "(time.Time).IsZero": true, "(time.Time).Round": true, "(time.Time).Equal": true,
	"(time.Time).Before": true, "(time.Time).After": true,
	// reflection used as a pure accessor: the value of field i of a row is a function of the row and of i
	"reflect.TypeOf": true, "reflect.ValueOf": true, "reflect.New": true, "(reflect.Value).Field": true, "(reflect.Value).Interface": true, "(reflect.Value).Elem": true,
}

func paramTypes(sig *types.Signature) []types.Type {
	var out []types.Type
	for i := 0; i < sig.Params().Len(); i++ {
		out = append(out, sig.Params().At(i).Type())
	}
	return out
}

func (p *Program) inPurePkg(f *ssa.Function) bool {
	if len(p.contracts.PurePkgs) == 0 {
		return false
	}
	if tp := fnPkg(f); tp != nil {
		return p.contracts.PurePkgs[tp.Path()]
	}
	return false
}

func (ex *Exec) pureLibCall(name string, callee *ssa.Function, args []Val, st *State, k CallCont) {
	sig := callee.Signature
	var ats []types.Type
	if sig.Recv() != nil {
		ats = append(ats, sig.Recv().Type())
	}
	ats = append(ats, paramTypes(sig)...)
	ex.pureCall(name, sig, ats, args, st, k)
}

// pureCall: the result is an uninterpreted function (one symbol per name and argument sorts) of the arguments.
func (ex *Exec) pureCall(name string, sig *types.Signature, ats []types.Type, args []Val, st *State, k CallCont) {
	vc := ex.vc
	var as, sorts []string
	for i, a := range args {
		var t types.Type
		if i < len(ats) {
			t = ats[i]
		}
		tm := ex.toTerm(st, a, t)
		as = append(as, tm.S)
		sorts = append(sorts, tm.Sort)
	}
	vc.usedExt["pure library function (deterministic, no effects): "+name] = true
	if t, ok := vc.foldPureLib(name, as); ok {
		k(st, tv(t), false)
		return
	}
	res := sig.Results()
	mk := func(i int) Val {
		rs := vc.sorts.SortOf(res.At(i).Type())
		fn := libFuncName(name, i, sorts)
		vc.declareFun(fn, sorts, rs)
		if len(as) == 0 {
			return tv(Term{fn, rs})
		}
		return tv(Term{app(fn, as...), rs})
	}
	switch res.Len() {
	case 0:
		k(st, Val{}, false)
	case 1:
		k(st, mk(0), false)
	default:
		var tup []Val
		for i := 0; i < res.Len(); i++ {
			tup = append(tup, mk(i))
		}
		k(st, Val{K: VTuple, Tup: tup}, false)
	}
}

func libFuncName(name string, idx int, sorts []string) string {
	n := "lib_" + sanitize(name)
	if idx > 0 {
		n += fmt.Sprintf("_r%d", idx)
	}
	// one symbol per argument-sort tuple (variadic or overloaded uses)
	for _, s := range sorts {
		n += "_" + sanitize(s)[:minInt(6, len(sanitize(s)))]
	}
	return n
}

// foldPureLib evaluates a pure library function on literal arguments (only the trivially safe cases).
func (vc *VC) foldPureLib(name string, args []string) (Term, bool) {
	lit := func(t string) (string, bool) {
		if t == "str_empty" {
			return "", true
		}
		for s, n := range vc.strLits {
			if n == t {
				return s, true
			}
		}
		return "", false
	}
	switch name {
	case "strings.HasPrefix":
		if len(args) == 2 {
			if s, ok := lit(args[0]); ok {
				if p, ok := lit(args[1]); ok {
					return Term{fmt.Sprint(strings.HasPrefix(s, p)), SBool}, true
				}
			}
		}
	case "strings.ToUpper", "strings.ToLower":
		if len(args) == 1 {
			if s, ok := lit(args[0]); ok {
				if name == "strings.ToUpper" {
					return vc.strLit(strings.ToUpper(s)), true
				}
				return vc.strLit(strings.ToLower(s)), true
			}
		}
	}
	return Term{}, false
}

// ---- bun.SelectQuery (assumed contract of the query builder and of PostgreSQL's LIMIT/OFFSET):
// ghost rows: the rows matching the query, in the list's order; qOffset/qLimit: what Offset/Limit recorded
// on the builder (-1: no limit). Scan fills its destination with rows[offset : offset+limit).
func init() {
	setGhostMap := func(ex *Exec, st *State, ghost string, key, val Term) {
		env := ex.newEnv(st, nil, nil, nil)
		g, ok := env.ghostVal(ghost, st)
		if !ok {
			ex.vc.fatalf("bun model: ghost %s is not declared (contracts/extern/bun.contracts)", ghost)
			return
		}
		st.ghost[ghost] = Term{app("store", g.T.S, key.S, val.S), g.T.Sort}
		if st.writes != nil {
			st.writes.ghost[ghost] = true
		}
	}
	externModels["(*github.com/uptrace/bun.SelectQuery).Offset"] = func(ex *Exec, fr *Frame, callee *ssa.Function, args []Val, st *State, k CallCont) {
		q := ex.toTerm(st, args[0], nil)
		setGhostMap(ex, st, "qOffset", q, ex.toTerm(st, args[1], nil))
		k(st, tv(q), false)
	}
	externModels["(*github.com/uptrace/bun.SelectQuery).Limit"] = func(ex *Exec, fr *Frame, callee *ssa.Function, args []Val, st *State, k CallCont) {
		q := ex.toTerm(st, args[0], nil)
		setGhostMap(ex, st, "qLimit", q, ex.toTerm(st, args[1], nil))
		k(st, tv(q), false)
	}
	// Apply(fn) returns fn(q)
	externModels["(*github.com/uptrace/bun.SelectQuery).Apply"] = func(ex *Exec, fr *Frame, callee *ssa.Function, args []Val, st *State, k CallCont) {
		vc := ex.vc
		fn := args[1]
		if fn.K == VTerm && fn.T.Sort == SFunc {
			if cl, ok := vc.funcConsts[fn.T.S]; ok {
				fn = cl
			}
		}
		if fn.K == VClosure && fn.Fn != nil {
			ex.callFunc(fr, fn.Fn, fn.Bind, []Val{args[0]}, nil, st, k)
			return
		}
		gs := &ghostSet{set: map[string]bool{}}
		for _, t := range vc.prog.funcValuesOfType(callee.Signature.Params().At(0).Type()) {
			gs.add(vc.prog.mayModifyGhosts(t))
		}
		vc.note("bun Apply of an unknown function value at %s: havoc of the heap and of the ghost state its possible targets can reach", ex.where())
		ex.havocAllG(st, gs)
		r := vc.fresh("applied", SRef)
		st.assume(app(">", r.S, "0"))
		k(st, tv(r), false)
	}
	externModels["(*github.com/uptrace/bun.SelectQuery).Scan"] = func(ex *Exec, fr *Frame, callee *ssa.Function, args []Val, st *State, k CallCont) {
		vc := ex.vc
		q := ex.toTerm(st, args[0], nil)
		env := ex.newEnv(st, nil, nil, nil)
		rows, ok1 := env.ghostVal("rows", st)
		off, ok2 := env.ghostVal("qOffset", st)
		lim, ok3 := env.ghostVal("qLimit", st)
		errv := vc.fresh("scan_err", SAny)
		if !ok1 || !ok2 || !ok3 {
			vc.fatalf("bun model: ghosts rows/qOffset/qLimit are not declared")
			return
		}
		dest := ex.toTerm(st, args[2], nil)
		lit, ok := vc.seqLits[dest.S]
		if !ok || len(lit) != 1 {
			vc.note("Scan with an unrecognised destination at %s: destination havocked", ex.where())
			ex.havocReachable(st, args[2], nil)
			k(st, tv(errv), false)
			return
		}
		// destination: an interface holding a pointer to a slice
		for _, key := range vc.sorts.anyOrder {
			c := vc.sorts.anyCtors[key]
			pt, isPtr := c.typ.Underlying().(*types.Pointer)
			if !isPtr || !strings.HasPrefix(lit[0].S, "("+c.name+" ") {
				continue
			}
			es := vc.sorts.SortOf(pt.Elem())
			if es != rows.T.Sort {
				continue
			}
			ref := app(c.sel, lit[0].S)
			o := app("select", off.T.S, q.S)
			l := app("select", lim.T.S, q.S)
			n := app("sq_len_"+es, rows.T.S)
			lo := ite(app("<=", o, n), o, n)
			hi := ite(app("<", l, "0"), n, ite(app("<=", app("+", lo, l), n), app("+", lo, l), n))
			window := vc.fresh("scanned", es)
			st.assume(implies(app("=", errv.S, "any_nil"), app("=", window.S, app("sq_sub_"+es, rows.T.S, lo, hi))))
			hn, hs := vc.boxHeap(es)
			h := vc.heapGet(st, hn, hs)
			vc.heapSet(st, hn, Term{app("store", h.S, ref, window.S), hs})
			if _, ok := vc.prog.contracts.Ghosts["lastScan"]; ok {
				st.ghost["lastScan"] = window
				if st.writes != nil {
					st.writes.ghost["lastScan"] = true
				}
			}
			k(st, tv(errv), false)
			return
		}
		vc.note("Scan destination type not matched at %s: destination havocked", ex.where())
		ex.havocReachable(st, args[2], nil)
		k(st, tv(errv), false)
	}
}

// prefixAxioms: strings.HasPrefix on the text fmt.Sprintf builds from a constant format. The text starts with the
// format's literal head (what precedes the first verb): a prefix of that head is a prefix of the text, and a literal
// that differs from the head before either ends is not. Literals against literals are computed.
func (vc *VC) prefixAxioms() string {
	hp := libFuncName("strings.HasPrefix", 0, []string{SStr, SStr})
	if !vc.declSet[hp] {
		return ""
	}
	var b strings.Builder
	lits := append([]string{""}, vc.strOrder...)
	name := func(s string) string { return vc.strLit(s).S }
	for _, p := range lits {
		for _, s := range lits {
			fmt.Fprintf(&b, "(assert (= (%s %s %s) %v))\n", hp, name(s), name(p), strings.HasPrefix(s, p))
		}
		for _, fn := range sortedKeys(vc.sprintfFormats) {
			format := vc.sprintfFormats[fn]
			head := format
			if i := strings.Index(format, "%"); i >= 0 {
				head = format[:i]
			}
			var arity int
			fmt.Sscanf(fn[strings.LastIndex(fn, "_")+1:], "%d", &arity)
			if arity == 0 {
				continue
			}
			var vars, decls []string
			for i := 0; i < arity; i++ {
				vars = append(vars, fmt.Sprintf("a%d", i))
				decls = append(decls, fmt.Sprintf("(a%d Any)", i))
			}
			call := app(fn, vars...)
			switch {
			case strings.HasPrefix(head, p):
				fmt.Fprintf(&b, "(assert (forall (%s) (! (%s %s %s) :pattern (%s))))\n", strings.Join(decls, " "), hp, call, name(p), call)
			case !strings.HasPrefix(p, head):
				fmt.Fprintf(&b, "(assert (forall (%s) (! (not (%s %s %s)) :pattern (%s))))\n", strings.Join(decls, " "), hp, call, name(p), call)
			}
		}
	}
	return b.String()
}
