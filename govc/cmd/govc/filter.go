package main

// Model of libs/collectionutils.Filter(input, pred) when pred resolves statically to a closure of the repository.
// The closure is run once on an arbitrary element x; if it has no effect, its result on each path gives a term P(x)
// (if-then-else over the path conditions). The result r of Filter is then characterised, for this P, by
//   every element of r satisfies P and comes from input, in the order of input (fidx strictly increasing);
//   every element of input that satisfies P is in r (ridx);
// which is what the three-line loop of Filter computes. What is assumed: that loop (Filter itself is not verified here),
// and that the closure does not panic on the elements it is given. When the closure does not resolve, or has effects,
// the call falls back to an uninterpreted result.

import (
	"fmt"
	"go/types"
	"strings"

	"golang.org/x/tools/go/ssa"
)

func init() {
	externModels["collectionutils.Filter"] = func(ex *Exec, fr *Frame, callee *ssa.Function, args []Val, st *State, k CallCont) {
		vc := ex.vc
		fallback := func() { ex.pureLibCall("collectionutils.Filter", callee, args, st, k) }
		if len(args) != 2 {
			fallback()
			return
		}
		f := args[1]
		if f.K == VTerm && f.T.Sort == SFunc {
			if cl, ok := vc.funcConsts[f.T.S]; ok {
				f = cl
			}
		}
		if f.K != VClosure || f.Fn == nil || f.Fn.Blocks == nil || !vc.prog.inRepoFn(f.Fn) {
			fallback()
			return
		}
		sig := callee.Signature
		input := ex.toTerm(st, args[0], sig.Params().At(0).Type())
		S := input.Sort
		et := sig.Params().At(0).Type().Underlying().(*types.Slice).Elem()
		x := vc.fresh("flt_x", vc.sorts.SortOf(et))
		// run the predicate on x
		type path struct {
			pc  []string
			res string
		}
		var paths []path
		pure := true
		base := len(st.pc)
		heapBefore := map[string]string{}
		for h, t := range st.heap {
			heapBefore[h] = t.S
		}
		ghostBefore := map[string]string{}
		for g, t := range st.ghost {
			ghostBefore[g] = t.S
		}
		cur := ex.cur
		vc.collecting++
		ex.callFunc(fr, f.Fn, f.Bind, []Val{tv(x)}, nil, st.clone(), func(st2 *State, res Val, panicked bool) {
			if panicked {
				return
			}
			for h, t := range st2.heap {
				if b, ok := heapBefore[h]; ok && b != t.S {
					pure = false
				}
			}
			for g, t := range st2.ghost {
				if b, ok := ghostBefore[g]; ok && b != t.S {
					pure = false
				}
			}
			if st2.epoch != st.epoch {
				pure = false
			}
			r := ex.toTerm(st2, res, types.Typ[types.Bool])
			paths = append(paths, path{pc: append([]string{}, st2.pc[base:]...), res: r.S})
		})
		vc.collecting--
		ex.cur = cur
		if !pure || len(paths) == 0 || len(paths) > 16 {
			fallback()
			return
		}
		P := paths[len(paths)-1].res
		for i := len(paths) - 2; i >= 0; i-- {
			P = ite(and(paths[i].pc...), paths[i].res, P)
		}
		at := func(seq, idx string) string { return app("sq_at_"+S, seq, idx) }
		ln := func(seq string) string { return app("sq_len_"+S, seq) }
		subst := func(term, with string) string { return replaceToken(term, x.S, with) }
		r := vc.fresh("filtered", S)
		vc.counter++
		fidx := fmt.Sprintf("flt_src!%d", vc.counter)
		ridx := fmt.Sprintf("flt_dst!%d", vc.counter)
		vc.declareFun(fidx, []string{SInt}, SInt)
		vc.declareFun(ridx, []string{SInt}, SInt)
		st.assume(app("<=", ln(r.S), ln(input.S)))
		// every element of the result satisfies the predicate and comes from the input, order preserved
		st.assume(fmt.Sprintf("(forall ((j!f Int)) (! (=> (and (<= 0 j!f) (< j!f %s)) (and %s (<= 0 (%s j!f)) (< (%s j!f) %s) (= %s %s))) :pattern (%s)))",
			ln(r.S), subst(P, at(r.S, "j!f")), fidx, fidx, ln(input.S), at(r.S, "j!f"), at(input.S, app(fidx, "j!f")), at(r.S, "j!f")))
		st.assume(fmt.Sprintf("(forall ((j!f Int) (k!f Int)) (! (=> (and (<= 0 j!f) (< j!f k!f) (< k!f %s)) (< (%s j!f) (%s k!f))) :pattern ((%s j!f) (%s k!f))))",
			ln(r.S), fidx, fidx, fidx, fidx))
		// every element of the input that satisfies the predicate is in the result
		st.assume(fmt.Sprintf("(forall ((i!f Int)) (! (=> (and (<= 0 i!f) (< i!f %s) %s) (and (<= 0 (%s i!f)) (< (%s i!f) %s) (= %s %s))) :pattern (%s)))",
			ln(input.S), subst(P, at(input.S, "i!f")), ridx, ridx, ln(r.S), at(r.S, app(ridx, "i!f")), at(input.S, "i!f"), at(input.S, "i!f")))
		vc.usedExt["collectionutils.Filter with a statically known, effect-free predicate: the result holds exactly the input's elements satisfying it, in order (the loop of Filter is assumed, the predicate's body is read from the code)"] = true
		rv := tv(r)
		vc.counter++
		rv.Back = &Backing{origin: fmt.Sprintf("make#%d", vc.counter), lo: Term{"0", SInt}, fresh: true}
		k(st, rv, false)
	}
}

// replaceToken replaces whole-token occurrences of name in an SMT term.
func replaceToken(term, name, with string) string {
	var b strings.Builder
	for i := 0; i < len(term); {
		j := strings.Index(term[i:], name)
		if j < 0 {
			b.WriteString(term[i:])
			break
		}
		j += i
		end := j + len(name)
		okBefore := j == 0 || strings.ContainsRune(" ()", rune(term[j-1]))
		okAfter := end == len(term) || strings.ContainsRune(" ()", rune(term[end]))
		b.WriteString(term[i:j])
		if okBefore && okAfter {
			b.WriteString(with)
		} else {
			b.WriteString(name)
		}
		i = end
	}
	return b.String()
}

func init() {
	// reflect.DeepEqual on two boxed values of a basic type (string, integer, bool) is ==
	externModels["reflect.DeepEqual"] = func(ex *Exec, fr *Frame, callee *ssa.Function, args []Val, st *State, k CallCont) {
		vc := ex.vc
		basic := func(t Term) bool {
			for _, key := range vc.sorts.anyOrder {
				c := vc.sorts.anyCtors[key]
				if _, ok := c.typ.Underlying().(*types.Basic); ok && strings.HasPrefix(t.S, "("+c.name+" ") {
					return true
				}
			}
			return false
		}
		if len(args) == 2 {
			a, b := ex.toTerm(st, args[0], nil), ex.toTerm(st, args[1], nil)
			if a.Sort == SAny && b.Sort == SAny && (basic(a) || basic(b)) {
				k(st, tv(Term{app("=", a.S, b.S), SBool}), false)
				return
			}
		}
		k(st, tv(vc.fresh("deepequal", SBool)), false)
	}
}
