package main

// Ghost frame inference. Ghost variables change only through contracts (their
// `update` / `modifies ghost` clauses). A function that cannot reach such a
// contract, and makes no dynamic call whose target is unknown, leaves the ghost
// state unchanged; this conservative call-graph analysis decides which ghost
// variables an uncontracted call may change, so that havocking an unknown repo
// function does not needlessly forget them.

import (
	"go/types"
	"strings"

	"golang.org/x/tools/go/ssa"
)

type ghostSet struct {
	all bool
	set map[string]bool
}

func (g *ghostSet) add(o *ghostSet) bool {
	changed := false
	if o.all && !g.all {
		g.all = true
		changed = true
	}
	for k := range o.set {
		if !g.set[k] {
			g.set[k] = true
			changed = true
		}
	}
	return changed
}

func (g *ghostSet) has(name string) bool { return g.all || g.set[name] }

func contractGhosts(c *FuncContract) *ghostSet {
	g := &ghostSet{set: map[string]bool{}}
	for _, m := range c.Modifies {
		if m == "all" {
			g.all = true
		}
		if strings.HasPrefix(m, "ghost ") {
			g.set[strings.TrimSpace(m[6:])] = true
		}
	}
	for _, u := range c.Updates {
		g.set[u.Ghost] = true
	}
	return g
}

// mayModifyGhosts computes, for fn, the ghost variables a call of fn may change.
func (p *Program) mayModifyGhosts(fn *ssa.Function) *ghostSet {
	if p.ghostCache == nil {
		p.ghostCache = map[*ssa.Function]*ghostSet{}
	}
	if g, ok := p.ghostCache[fn]; ok {
		return g
	}
	// fixpoint over the (possibly cyclic) call graph reachable from fn
	visiting := map[*ssa.Function]*ghostSet{}
	var order []*ssa.Function
	var collect func(f *ssa.Function)
	collect = func(f *ssa.Function) {
		if _, ok := visiting[f]; ok {
			return
		}
		if g, ok := p.ghostCache[f]; ok {
			visiting[f] = g
			return
		}
		visiting[f] = &ghostSet{set: map[string]bool{}}
		order = append(order, f)
		for _, callee := range p.directTargets(f) {
			collect(callee)
		}
	}
	collect(fn)
	for changed := true; changed; {
		changed = false
		for _, f := range order {
			g := visiting[f]
			own := p.ownGhostEffects(f, visiting)
			if g.add(own) {
				changed = true
			}
		}
	}
	for _, f := range order {
		p.ghostCache[f] = visiting[f]
	}
	return visiting[fn]
}

// directTargets: functions whose bodies must be analysed because f may run them.
func (p *Program) directTargets(f *ssa.Function) []*ssa.Function {
	var out []*ssa.Function
	seen := map[*ssa.Function]bool{}
	add := func(c *ssa.Function) {
		if c != nil && !seen[c] {
			seen[c] = true
			out = append(out, c)
		}
	}
	if f.Blocks == nil {
		return nil
	}
	for _, a := range f.AnonFuncs {
		add(a) // closures created here may be run by whoever receives them
	}
	for _, b := range f.Blocks {
		for _, ins := range b.Instrs {
			var common *ssa.CallCommon
			switch x := ins.(type) {
			case *ssa.Call:
				common = x.Common()
			case *ssa.Go:
				common = x.Common()
			case *ssa.Defer:
				common = x.Common()
			}
			if common == nil {
				continue
			}
			if common.IsInvoke() {
				if p.lookupIface(common.Value.Type(), common.Method) != nil {
					continue
				}
				for _, t := range p.ifaceTargets(common) {
					add(t)
				}
				continue
			}
			if common.StaticCallee() == nil && !p.dynamicTargetKnown(f, common.Value) {
				for _, t := range p.funcValuesOfType(common.Value.Type()) {
					add(t)
				}
			}
			if sc := common.StaticCallee(); sc != nil {
				name := p.funcName(sc)
				if c := p.contracts.Funcs[name]; c != nil && (c.HasMod || c.Trusted) {
					continue
				}
				if _, ok := externModels[name]; ok {
					continue
				}
				if sc.Blocks != nil && p.inRepoFn(sc) {
					add(sc)
				}
				// function values handed to a callee may be run by it
				for _, a := range common.Args {
					switch av := a.(type) {
					case *ssa.Function:
						add(av)
					case *ssa.MakeClosure:
						add(av.Fn.(*ssa.Function))
					}
				}
			}
		}
	}
	return out
}

// ifaceTargets: closed-world targets of an interface call on a repository interface.
func (p *Program) ifaceTargets(common *ssa.CallCommon) []*ssa.Function {
	nt, ok := types.Unalias(common.Value.Type()).(*types.Named)
	if !ok || nt.Obj().Pkg() == nil || !p.inRepoPath(nt.Obj().Pkg().Path()) {
		return nil
	}
	iface, ok := nt.Underlying().(*types.Interface)
	if !ok {
		return nil
	}
	var out []*ssa.Function
	for _, t := range p.implementers(iface) {
		ms := p.ssaProg.MethodSets.MethodSet(t)
		if sel := ms.Lookup(common.Method.Pkg(), common.Method.Name()); sel != nil {
			if f := p.ssaProg.MethodValue(sel); f != nil {
				out = append(out, f)
			}
		}
	}
	return out
}

// ownGhostEffects: effects of the call sites of f given the current estimates.
func (p *Program) ownGhostEffects(f *ssa.Function, est map[*ssa.Function]*ghostSet) *ghostSet {
	g := &ghostSet{set: map[string]bool{}}
	if f.Blocks == nil {
		return g
	}
	get := func(c *ssa.Function) *ghostSet {
		if e, ok := est[c]; ok {
			return e
		}
		if e, ok := p.ghostCache[c]; ok {
			return e
		}
		return &ghostSet{set: map[string]bool{}}
	}
	for _, b := range f.Blocks {
		for _, ins := range b.Instrs {
			var common *ssa.CallCommon
			switch x := ins.(type) {
			case *ssa.Call:
				common = x.Common()
			case *ssa.Go:
				common = x.Common()
			case *ssa.Defer:
				common = x.Common()
			}
			if common == nil {
				continue
			}
			if _, isBuiltin := common.Value.(*ssa.Builtin); isBuiltin {
				continue
			}
			if common.IsInvoke() {
				if c := p.lookupIface(common.Value.Type(), common.Method); c != nil {
					g.add(contractGhosts(c))
					continue
				}
				nt, ok := types.Unalias(common.Value.Type()).(*types.Named)
				if ok && nt.Obj().Pkg() != nil && p.inRepoPath(nt.Obj().Pkg().Path()) {
					ts := p.ifaceTargets(common)
					if len(ts) == 0 {
						g.all = true // a repository interface with no known implementation and no contract
					}
					for _, t := range ts {
						g.add(get(t))
					}
				}
				// library interfaces (io.Writer, http.ResponseWriter, error, context.Context ...): no ghost effect
				continue
			}
			sc := common.StaticCallee()
			if sc == nil {
				// dynamic call of a function value: a closure created in a function we analysed is
				// covered through AnonFuncs of its creator only if it was created in f itself
				if p.dynamicTargetKnown(f, common.Value) {
					continue
				}
				// otherwise: every repository function or closure of that signature whose value is taken
				// somewhere (closed world: function values originate in the loaded program or in libraries,
				// and library functions do not call the ledger)
				for _, t := range p.funcValuesOfType(common.Value.Type()) {
					g.add(get(t))
				}
				continue
			}
			name := p.funcName(sc)
			if c := p.contracts.Funcs[name]; c != nil && (c.HasMod || c.Trusted) {
				g.add(contractGhosts(c))
				continue
			}
			if _, ok := externModels[name]; ok {
				continue
			}
			if sc.Blocks != nil && p.inRepoFn(sc) {
				g.add(get(sc))
			}
			for _, a := range common.Args {
				switch av := a.(type) {
				case *ssa.Function:
					g.add(get(av))
				case *ssa.MakeClosure:
					g.add(get(av.Fn.(*ssa.Function)))
				}
			}
		}
	}
	for _, a := range f.AnonFuncs {
		g.add(get(a))
	}
	return g
}

// dynamicTargetKnown: the called value is a closure or function created in f (its
// body is analysed through AnonFuncs / directTargets).
func (p *Program) dynamicTargetKnown(f *ssa.Function, v ssa.Value) bool {
	switch x := v.(type) {
	case *ssa.MakeClosure, *ssa.Function:
		return true
	case *ssa.UnOp:
		// load of a local holding a closure created in this function
		if a, ok := x.X.(*ssa.Alloc); ok {
			for _, ref := range *a.Referrers() {
				if st, ok := ref.(*ssa.Store); ok && st.Addr == a {
					switch st.Val.(type) {
					case *ssa.MakeClosure, *ssa.Function:
					default:
						return false
					}
				}
			}
			return true
		}
	}
	return false
}

// funcValuesOfType: repository functions and closures used as values whose signature is identical to t.
func (p *Program) funcValuesOfType(t types.Type) []*ssa.Function {
	sig, ok := t.Underlying().(*types.Signature)
	if !ok {
		return nil
	}
	if p.funcValues == nil {
		p.funcValues = map[string][]*ssa.Function{}
		seen := map[*ssa.Function]bool{}
		var visit func(f *ssa.Function)
		record := func(fv *ssa.Function) {
			if fv == nil || seen[fv] || !p.inRepoFn(fv) {
				return
			}
			seen[fv] = true
			key := sigKey(fv.Signature)
			p.funcValues[key] = append(p.funcValues[key], fv)
		}
		visited := map[*ssa.Function]bool{}
		visit = func(f *ssa.Function) {
			if f == nil || visited[f] || f.Blocks == nil {
				return
			}
			visited[f] = true
			for _, b := range f.Blocks {
				for _, ins := range b.Instrs {
					if mc, ok := ins.(*ssa.MakeClosure); ok {
						record(mc.Fn.(*ssa.Function))
					}
					var ops []*ssa.Value
					ops = ins.Operands(ops)
					for i, op := range ops {
						if op == nil || *op == nil {
							continue
						}
						if fv, ok := (*op).(*ssa.Function); ok {
							// skip the callee position of a static call
							if call, ok := ins.(ssa.CallInstruction); ok && i == 0 && call.Common().Value == ssa.Value(fv) {
								continue
							}
							record(fv)
						}
					}
				}
			}
			for _, a := range f.AnonFuncs {
				visit(a)
			}
		}
		for _, f := range p.funcs {
			visit(f)
		}
	}
	return p.funcValues[sigKey(sig)]
}

func sigKey(sig *types.Signature) string {
	// receiver-less signature text
	return types.TypeString(types.NewSignatureType(nil, nil, nil, sig.Params(), sig.Results(), sig.Variadic()), nil)
}
