package main

// Loading /repo: packages, SSA, contract files.

import (
	"fmt"
	"go/token"
	"go/types"
	"os"
	"path/filepath"
	"sort"
	"strings"

	"golang.org/x/tools/go/packages"
	"golang.org/x/tools/go/ssa"
	"golang.org/x/tools/go/ssa/ssautil"
)

type UFun struct {
	Name   string
	Result string
}

type Program struct {
	repo         string
	fset         *token.FileSet
	pinnedLoops  map[string][]pinnedLoop // per function: ordinal and source text of the loops that carried invariants when pinned
	fileLines    map[string][]string
	pinnedFuncs  map[string]bool // repository functions known when the contracts were pinned (nil: not recorded)
	pinnedFields map[string]bool // "pkgpath.Struct.field" known when the contracts were pinned (nil: not recorded)
	pkgs         []*packages.Package
	allPkgs      []*packages.Package // repo packages (transitively)
	allTypesPkgs []*types.Package
	ssaProg      *ssa.Program
	ssaPkgs      map[*types.Package]*ssa.Package
	contracts    *ContractSet
	repoPrefixes []string
	funcs        map[string]*ssa.Function
	implCache    map[*types.Interface][]types.Type
	loadSeconds  float64
	ghostCache   map[*ssa.Function]*ghostSet
	libCache     map[string]*ssa.Function
	funcValues   map[string][]*ssa.Function
	curProp      string   // the property being checked (tagged assumes / nopanic apply to their properties only)
	localPinList []string // pins.json "_locals": locals named in loop invariants (see renamedLocal)
}

var repoModulePrefixes = []string{"github.com/formancehq/ledger", "github.com/formancehq/stack/libs/go-libs"}

func LoadProgram(repo string, patterns []string, externDir string) (*Program, error) {
	cfg := &packages.Config{
		Mode:       packages.LoadAllSyntax,
		Dir:        repo,
		BuildFlags: []string{"-tags=verif"},
		Env:        append(os.Environ(), "GOFLAGS=-mod=mod", "GOPROXY=off", "GOSUMDB=off", "GOTOOLCHAIN=local"),
	}
	pkgs, err := packages.Load(cfg, patterns...)
	if err != nil {
		return nil, err
	}
	var errs []string
	packages.Visit(pkgs, nil, func(p *packages.Package) {
		for _, e := range p.Errors {
			errs = append(errs, e.Error())
		}
	})
	if len(errs) > 0 {
		return nil, fmt.Errorf("load errors: %s", strings.Join(errs, "; "))
	}
	prog := &Program{repo: repo, pkgs: pkgs, repoPrefixes: repoModulePrefixes, ssaPkgs: map[*types.Package]*ssa.Package{},
		funcs: map[string]*ssa.Function{}, implCache: map[*types.Interface][]types.Type{}, contracts: NewContractSet()}
	if len(pkgs) > 0 {
		prog.fset = pkgs[0].Fset
	}
	sp, _ := ssautil.AllPackages(pkgs, ssa.NaiveForm|ssa.GlobalDebug|ssa.InstantiateGenerics)
	sp.Build()
	prog.ssaProg = sp
	packages.Visit(pkgs, nil, func(p *packages.Package) {
		prog.allTypesPkgs = append(prog.allTypesPkgs, p.Types)
		if prog.inRepoPath(p.PkgPath) {
			prog.allPkgs = append(prog.allPkgs, p)
		}
		if s := sp.Package(p.Types); s != nil {
			prog.ssaPkgs[p.Types] = s
		}
	})
	sort.Slice(prog.allPkgs, func(i, j int) bool { return prog.allPkgs[i].PkgPath < prog.allPkgs[j].PkgPath })
	// contract files
	for _, p := range prog.allPkgs {
		for _, f := range p.Syntax {
			name := prog.fset.Position(f.Pos()).Filename
			if strings.HasSuffix(name, "_verif.go") {
				prog.contracts.ParseFile(prog.fset, f, p.Types)
			}
		}
	}
	if externDir != "" {
		files, _ := filepath.Glob(filepath.Join(externDir, "*.contracts"))
		sort.Strings(files)
		for _, f := range files {
			if err := prog.contracts.ParseExternFile(f); err != nil {
				return nil, err
			}
		}
	}
	// index functions
	for _, p := range prog.allPkgs {
		s := prog.ssaPkgs[p.Types]
		if s == nil {
			continue
		}
		for _, m := range s.Members {
			switch x := m.(type) {
			case *ssa.Function:
				prog.indexFunc(x)
			case *ssa.Type:
				if nt, ok := x.Type().(*types.Named); ok {
					for i := 0; i < nt.NumMethods(); i++ {
						if f := sp.FuncValue(nt.Method(i)); f != nil && f.Synthetic == "" {
							prog.indexFunc(f)
						}
					}
				}
				for _, t := range []types.Type{x.Type(), types.NewPointer(x.Type())} {
					ms := sp.MethodSets.MethodSet(t)
					for i := 0; i < ms.Len(); i++ {
						if f := sp.MethodValue(ms.At(i)); f != nil && f.Synthetic == "" {
							prog.indexFunc(f)
						}
					}
				}
			}
		}
	}
	return prog, nil
}

func (p *Program) indexFunc(f *ssa.Function) {
	n := p.funcName(f)
	if _, ok := p.funcs[n]; ok {
		return
	}
	p.funcs[n] = f
	for _, a := range f.AnonFuncs {
		p.indexFunc(a)
	}
}

func (p *Program) inRepoPath(path string) bool {
	for _, pre := range p.repoPrefixes {
		if strings.HasPrefix(path, pre) {
			return true
		}
	}
	return false
}

func (p *Program) inRepoFn(f *ssa.Function) bool {
	if f.Pkg != nil {
		return p.inRepoPath(f.Pkg.Pkg.Path())
	}
	if f.Parent() != nil {
		return p.inRepoFn(f.Parent())
	}
	if o := f.Origin(); o != nil {
		return p.inRepoFn(o)
	}
	if f.Object() != nil && f.Object().Pkg() != nil {
		return p.inRepoPath(f.Object().Pkg().Path())
	}
	return false
}

// funcName: "pkg.Func", "(pkg.T).M", "(*pkg.T).M", closures "pkg.Func$1".
// Package paths are shortened to package names for repo packages; library
// functions keep their full path.
func (p *Program) funcName(f *ssa.Function) string {
	if o := f.Origin(); o != nil {
		f = o
	}
	s := f.String()
	for _, tp := range p.allTypesPkgs {
		if p.inRepoPath(tp.Path()) {
			s = strings.ReplaceAll(s, tp.Path()+".", tp.Name()+".")
		}
	}
	return s
}

func (p *Program) pkgByName(name string) *types.Package {
	for _, tp := range p.allTypesPkgs {
		if tp.Name() == name && p.inRepoPath(tp.Path()) {
			return tp
		}
	}
	for _, tp := range p.allTypesPkgs {
		if tp.Name() == name {
			return tp
		}
	}
	return nil
}

func (p *Program) ssaPkg(tp *types.Package) *ssa.Package { return p.ssaPkgs[tp] }

func (p *Program) implementers(it *types.Interface) []types.Type {
	if r, ok := p.implCache[it]; ok {
		return r
	}
	var out []types.Type
	for _, pk := range p.allPkgs {
		sc := pk.Types.Scope()
		for _, n := range sc.Names() {
			tn, ok := sc.Lookup(n).(*types.TypeName)
			if !ok || tn.IsAlias() {
				continue
			}
			t := tn.Type()
			if _, isIface := t.Underlying().(*types.Interface); isIface {
				continue
			}
			if nt, ok := t.(*types.Named); ok && nt.TypeParams() != nil && nt.TypeParams().Len() > 0 {
				continue
			}
			if types.Implements(t, it) {
				out = append(out, t)
			} else if types.Implements(types.NewPointer(t), it) {
				out = append(out, types.NewPointer(t))
			}
		}
	}
	p.implCache[it] = out
	return out
}

func (p *Program) ifaceMethodName(it types.Type, m *types.Func) string {
	n := types.TypeString(it, func(tp *types.Package) string { return tp.Name() })
	return n + "." + m.Name()
}

// lookupIface finds an iface contract for method m of interface type it, also
// through embedded interfaces (vm.Store methods called on command.Store).
func (p *Program) lookupIface(it types.Type, m *types.Func) *FuncContract {
	if c, ok := p.contracts.Funcs[p.ifaceMethodName(it, m)]; ok {
		return c
	}
	// by declaring interface: search all iface contracts whose method name matches and whose interface has this method object
	for name, c := range p.contracts.Funcs {
		if c.Kind != "iface" || !strings.HasSuffix(name, "."+m.Name()) {
			continue
		}
		in := name[:len(name)-len(m.Name())-1]
		if i := strings.Index(in, "."); i >= 0 {
			if tp := p.pkgByName(in[:i]); tp != nil {
				if tn, ok := tp.Scope().Lookup(in[i+1:]).(*types.TypeName); ok {
					if iface, ok := tn.Type().Underlying().(*types.Interface); ok {
						for j := 0; j < iface.NumMethods(); j++ {
							if iface.Method(j) == m {
								return c
							}
						}
					}
				}
			}
		}
	}
	return nil
}

func (p *Program) heapSort(vc *VC, name string) string { return "" }

// libFunc finds a library function or method by the name funcName gives it.
func (p *Program) libFunc(name string) *ssa.Function {
	if p.libCache == nil {
		p.libCache = map[string]*ssa.Function{}
		for _, tp := range p.allTypesPkgs {
			sp := p.ssaProg.Package(tp)
			if sp == nil {
				continue
			}
			for _, m := range sp.Members {
				switch x := m.(type) {
				case *ssa.Function:
					p.libCache[p.funcName(x)] = x
				case *ssa.Type:
					for _, t := range []types.Type{x.Type(), types.NewPointer(x.Type())} {
						ms := p.ssaProg.MethodSets.MethodSet(t)
						for i := 0; i < ms.Len(); i++ {
							if f := p.ssaProg.MethodValue(ms.At(i)); f != nil && f.Synthetic == "" {
								p.libCache[p.funcName(f)] = f
							}
						}
					}
				}
			}
		}
	}
	return p.libCache[name]
}

// fnPkg: the types package a function belongs to (also for closures, instantiations and synthetic wrappers).
func fnPkg(f *ssa.Function) *types.Package {
	for g := f; g != nil; g = g.Parent() {
		if g.Pkg != nil {
			return g.Pkg.Pkg
		}
		if o := g.Origin(); o != nil && o.Pkg != nil {
			return o.Pkg.Pkg
		}
		if g.Object() != nil && g.Object().Pkg() != nil {
			return g.Object().Pkg()
		}
	}
	return nil
}

// repoFields lists "pkgpath.Struct.field" for every named struct type of the loaded repository packages.
func (p *Program) repoFields() []string {
	var out []string
	for _, tp := range p.allTypesPkgs {
		if !p.inRepoPath(tp.Path()) {
			continue
		}
		for _, n := range tp.Scope().Names() {
			tn, ok := tp.Scope().Lookup(n).(*types.TypeName)
			if !ok {
				continue
			}
			st, ok := tn.Type().Underlying().(*types.Struct)
			if !ok {
				continue
			}
			for i := 0; i < st.NumFields(); i++ {
				out = append(out, tp.Path()+"."+n+"."+st.Field(i).Name())
			}
		}
	}
	return out
}

// newFieldHeaps: heap components of struct fields that did not exist when the contracts were pinned. No contract can
// speak about such a field, so a function with a frame clause is allowed to write it (and callers forget it).
func (vc *VC) newFieldHeaps() []string {
	p := vc.prog
	if p.pinnedFields == nil {
		return nil
	}
	if vc.newHeaps != nil {
		return vc.newHeaps
	}
	vc.newHeaps = []string{}
	knownPkg := map[string]bool{}
	for f := range p.pinnedFields {
		if i := strings.LastIndex(f, "."); i > 0 {
			if j := strings.LastIndex(f[:i], "."); j > 0 {
				knownPkg[f[:j]] = true
			}
		}
	}
	for _, tp := range p.allTypesPkgs {
		if !p.inRepoPath(tp.Path()) || !knownPkg[tp.Path()] {
			continue // a package the pins know nothing about: left to the frame clauses as before
		}
		for _, n := range tp.Scope().Names() {
			tn, ok := tp.Scope().Lookup(n).(*types.TypeName)
			if !ok {
				continue
			}
			st, ok := tn.Type().Underlying().(*types.Struct)
			if !ok {
				continue
			}
			for i := 0; i < st.NumFields(); i++ {
				if !p.pinnedFields[tp.Path()+"."+n+"."+st.Field(i).Name()] {
					if _, generic := tn.Type().(*types.Named); generic && tn.Type().(*types.Named).TypeParams().Len() > 0 {
						continue // instantiations have their own sorts; left to the frame clauses as before
					}
					vc.newHeaps = append(vc.newHeaps, "H_"+vc.sorts.SortOf(tn.Type())+"_"+st.Field(i).Name())
				}
			}
		}
	}
	return vc.newHeaps
}

type pinnedLoop struct {
	ord  int
	text string
}

// loopText: the source line of the statement that opens the loop (trimmed), "" if unknown.
func (p *Program) loopText(h *ssa.BasicBlock, body map[*ssa.BasicBlock]bool) string {
	best := token.NoPos
	scan := func(b *ssa.BasicBlock) {
		for _, ins := range b.Instrs {
			if ps := ins.Pos(); ps.IsValid() && (best == token.NoPos || ps < best) {
				best = ps
			}
		}
	}
	scan(h)
	if best == token.NoPos {
		for b := range body {
			scan(b)
		}
	}
	if best == token.NoPos {
		return ""
	}
	pos := p.fset.Position(best)
	if p.fileLines == nil {
		p.fileLines = map[string][]string{}
	}
	lines, ok := p.fileLines[pos.Filename]
	if !ok {
		if b, err := os.ReadFile(pos.Filename); err == nil {
			lines = strings.Split(string(b), "\n")
		}
		p.fileLines[pos.Filename] = lines
	}
	if pos.Line-1 < 0 || pos.Line-1 >= len(lines) {
		return ""
	}
	return strings.TrimSpace(lines[pos.Line-1])
}

// remapLoops renumbers the loops of fn so that a loop keeps the ordinal it had when the contracts were pinned, as long as
// the line that opens it is still recognisable: removing, adding or extracting another loop of the function then does
// not detach the invariants from their loops. Loops that are not recognised get ordinals above 100. If the pinned loops
// cannot be matched one to one in order, nothing is renumbered.
func (p *Program) remapLoops(fn *ssa.Function, loops map[*ssa.BasicBlock]int, bodies map[*ssa.BasicBlock]map[*ssa.BasicBlock]bool) {
	pinned := p.pinnedLoops[p.funcName(fn)]
	if len(pinned) == 0 {
		return
	}
	type al struct {
		h    *ssa.BasicBlock
		ord  int
		text string
	}
	var actual []al
	for h, o := range loops {
		actual = append(actual, al{h, o, p.loopText(h, bodies[h])})
	}
	sort.Slice(actual, func(i, j int) bool { return actual[i].ord < actual[j].ord })
	if os.Getenv("GOVC_DEBUG_LOOPS") != "" {
		for _, a := range actual {
			fmt.Fprintf(os.Stderr, "loop %s #%d: %q\n", p.funcName(fn), a.ord, a.text)
		}
	}
	byTextP := map[string][]int{}
	for _, pl := range pinned {
		byTextP[pl.text] = append(byTextP[pl.text], pl.ord)
	}
	newOrd := map[*ssa.BasicBlock]int{}
	used := map[int]bool{}
	for t, ords := range byTextP {
		sort.Ints(ords)
		var hs []al
		for _, a := range actual {
			if a.text == t && t != "" {
				hs = append(hs, a)
			}
		}
		if len(hs) < len(ords) {
			return // a pinned loop is not recognisable any more: keep the plain numbering
		}
		// the last len(ords) occurrences when there are more now than then would be a guess: require equality
		if len(hs) != len(ords) {
			// more loops with that text than pinned: match only if the pinned ones were all of them at the time; they
			// were not (otherwise the counts would agree), so give up
			return
		}
		for i, o := range ords {
			newOrd[hs[i].h] = o
			used[o] = true
		}
	}
	// order must be preserved among the matched loops
	last := 0
	for _, a := range actual {
		if o, ok := newOrd[a.h]; ok {
			if o < last {
				return
			}
			last = o
		}
	}
	identity := true
	for _, a := range actual {
		if o, ok := newOrd[a.h]; ok && o != a.ord {
			identity = false
		}
	}
	if identity {
		return
	}
	for _, a := range actual {
		if o, ok := newOrd[a.h]; ok {
			loops[a.h] = o
		} else {
			loops[a.h] = 100 + a.ord
		}
	}
}
