package main

// Loading /repo: packages, SSA, contract files.

import (
	"fmt"
	"go/token"
	"go/types"
	"os"
	"path/filepath"
	"sort"
	"strings"

	"golang.org/x/tools/go/packages"
	"golang.org/x/tools/go/ssa"
	"golang.org/x/tools/go/ssa/ssautil"
)

type UFun struct {
	Name   string
	Result string
}

type Program struct {
	repo         string
	fset         *token.FileSet
	pkgs         []*packages.Package
	allPkgs      []*packages.Package // repo packages (transitively)
	allTypesPkgs []*types.Package
	ssaProg      *ssa.Program
	ssaPkgs      map[*types.Package]*ssa.Package
	contracts    *ContractSet
	repoPrefixes []string
	funcs        map[string]*ssa.Function
	implCache    map[*types.Interface][]types.Type
	loadSeconds  float64
	ghostCache   map[*ssa.Function]*ghostSet
	libCache     map[string]*ssa.Function
	funcValues   map[string][]*ssa.Function
	curProp      string   // the property being checked (tagged assumes / nopanic apply to their properties only)
	localPinList []string // pins.json "_locals": locals named in loop invariants (see renamedLocal)
}

var repoModulePrefixes = []string{"github.com/formancehq/ledger", "github.com/formancehq/stack/libs/go-libs"}

func LoadProgram(repo string, patterns []string, externDir string) (*Program, error) {
	cfg := &packages.Config{
		Mode:       packages.LoadAllSyntax,
		Dir:        repo,
		BuildFlags: []string{"-tags=verif"},
		Env:        append(os.Environ(), "GOFLAGS=-mod=mod", "GOPROXY=off", "GOSUMDB=off", "GOTOOLCHAIN=local"),
	}
	pkgs, err := packages.Load(cfg, patterns...)
	if err != nil {
		return nil, err
	}
	var errs []string
	packages.Visit(pkgs, nil, func(p *packages.Package) {
		for _, e := range p.Errors {
			errs = append(errs, e.Error())
		}
	})
	if len(errs) > 0 {
		return nil, fmt.Errorf("load errors: %s", strings.Join(errs, "; "))
	}
	prog := &Program{repo: repo, pkgs: pkgs, repoPrefixes: repoModulePrefixes, ssaPkgs: map[*types.Package]*ssa.Package{},
		funcs: map[string]*ssa.Function{}, implCache: map[*types.Interface][]types.Type{}, contracts: NewContractSet()}
	if len(pkgs) > 0 {
		prog.fset = pkgs[0].Fset
	}
	sp, _ := ssautil.AllPackages(pkgs, ssa.NaiveForm|ssa.GlobalDebug|ssa.InstantiateGenerics)
	sp.Build()
	prog.ssaProg = sp
	packages.Visit(pkgs, nil, func(p *packages.Package) {
		prog.allTypesPkgs = append(prog.allTypesPkgs, p.Types)
		if prog.inRepoPath(p.PkgPath) {
			prog.allPkgs = append(prog.allPkgs, p)
		}
		if s := sp.Package(p.Types); s != nil {
			prog.ssaPkgs[p.Types] = s
		}
	})
	sort.Slice(prog.allPkgs, func(i, j int) bool { return prog.allPkgs[i].PkgPath < prog.allPkgs[j].PkgPath })
	// contract files
	for _, p := range prog.allPkgs {
		for _, f := range p.Syntax {
			name := prog.fset.Position(f.Pos()).Filename
			if strings.HasSuffix(name, "_verif.go") {
				prog.contracts.ParseFile(prog.fset, f, p.Types)
			}
		}
	}
	if externDir != "" {
		files, _ := filepath.Glob(filepath.Join(externDir, "*.contracts"))
		sort.Strings(files)
		for _, f := range files {
			if err := prog.contracts.ParseExternFile(f); err != nil {
				return nil, err
			}
		}
	}
	// index functions
	for _, p := range prog.allPkgs {
		s := prog.ssaPkgs[p.Types]
		if s == nil {
			continue
		}
		for _, m := range s.Members {
			switch x := m.(type) {
			case *ssa.Function:
				prog.indexFunc(x)
			case *ssa.Type:
				if nt, ok := x.Type().(*types.Named); ok {
					for i := 0; i < nt.NumMethods(); i++ {
						if f := sp.FuncValue(nt.Method(i)); f != nil && f.Synthetic == "" {
							prog.indexFunc(f)
						}
					}
				}
				for _, t := range []types.Type{x.Type(), types.NewPointer(x.Type())} {
					ms := sp.MethodSets.MethodSet(t)
					for i := 0; i < ms.Len(); i++ {
						if f := sp.MethodValue(ms.At(i)); f != nil && f.Synthetic == "" {
							prog.indexFunc(f)
						}
					}
				}
			}
		}
	}
	return prog, nil
}

func (p *Program) indexFunc(f *ssa.Function) {
	n := p.funcName(f)
	if _, ok := p.funcs[n]; ok {
		return
	}
	p.funcs[n] = f
	for _, a := range f.AnonFuncs {
		p.indexFunc(a)
	}
}

func (p *Program) inRepoPath(path string) bool {
	for _, pre := range p.repoPrefixes {
		if strings.HasPrefix(path, pre) {
			return true
		}
	}
	return false
}

func (p *Program) inRepoFn(f *ssa.Function) bool {
	if f.Pkg != nil {
		return p.inRepoPath(f.Pkg.Pkg.Path())
	}
	if f.Parent() != nil {
		return p.inRepoFn(f.Parent())
	}
	if o := f.Origin(); o != nil {
		return p.inRepoFn(o)
	}
	if f.Object() != nil && f.Object().Pkg() != nil {
		return p.inRepoPath(f.Object().Pkg().Path())
	}
	return false
}

// funcName: "pkg.Func", "(pkg.T).M", "(*pkg.T).M", closures "pkg.Func$1".
// Package paths are shortened to package names for repo packages; library
// functions keep their full path.
func (p *Program) funcName(f *ssa.Function) string {
	if o := f.Origin(); o != nil {
		f = o
	}
	s := f.String()
	for _, tp := range p.allTypesPkgs {
		if p.inRepoPath(tp.Path()) {
			s = strings.ReplaceAll(s, tp.Path()+".", tp.Name()+".")
		}
	}
	return s
}

func (p *Program) pkgByName(name string) *types.Package {
	for _, tp := range p.allTypesPkgs {
		if tp.Name() == name && p.inRepoPath(tp.Path()) {
			return tp
		}
	}
	for _, tp := range p.allTypesPkgs {
		if tp.Name() == name {
			return tp
		}
	}
	return nil
}

func (p *Program) ssaPkg(tp *types.Package) *ssa.Package { return p.ssaPkgs[tp] }

func (p *Program) implementers(it *types.Interface) []types.Type {
	if r, ok := p.implCache[it]; ok {
		return r
	}
	var out []types.Type
	for _, pk := range p.allPkgs {
		sc := pk.Types.Scope()
		for _, n := range sc.Names() {
			tn, ok := sc.Lookup(n).(*types.TypeName)
			if !ok || tn.IsAlias() {
				continue
			}
			t := tn.Type()
			if _, isIface := t.Underlying().(*types.Interface); isIface {
				continue
			}
			if nt, ok := t.(*types.Named); ok && nt.TypeParams() != nil && nt.TypeParams().Len() > 0 {
				continue
			}
			if types.Implements(t, it) {
				out = append(out, t)
			} else if types.Implements(types.NewPointer(t), it) {
				out = append(out, types.NewPointer(t))
			}
		}
	}
	p.implCache[it] = out
	return out
}

func (p *Program) ifaceMethodName(it types.Type, m *types.Func) string {
	n := types.TypeString(it, func(tp *types.Package) string { return tp.Name() })
	return n + "." + m.Name()
}

// lookupIface finds an iface contract for method m of interface type it, also
// through embedded interfaces (vm.Store methods called on command.Store).
func (p *Program) lookupIface(it types.Type, m *types.Func) *FuncContract {
	if c, ok := p.contracts.Funcs[p.ifaceMethodName(it, m)]; ok {
		return c
	}
	// by declaring interface: search all iface contracts whose method name matches and whose interface has this method object
	for name, c := range p.contracts.Funcs {
		if c.Kind != "iface" || !strings.HasSuffix(name, "."+m.Name()) {
			continue
		}
		in := name[:len(name)-len(m.Name())-1]
		if i := strings.Index(in, "."); i >= 0 {
			if tp := p.pkgByName(in[:i]); tp != nil {
				if tn, ok := tp.Scope().Lookup(in[i+1:]).(*types.TypeName); ok {
					if iface, ok := tn.Type().Underlying().(*types.Interface); ok {
						for j := 0; j < iface.NumMethods(); j++ {
							if iface.Method(j) == m {
								return c
							}
						}
					}
				}
			}
		}
	}
	return nil
}

func (p *Program) heapSort(vc *VC, name string) string { return "" }

// libFunc finds a library function or method by the name funcName gives it.
func (p *Program) libFunc(name string) *ssa.Function {
	if p.libCache == nil {
		p.libCache = map[string]*ssa.Function{}
		for _, tp := range p.allTypesPkgs {
			sp := p.ssaProg.Package(tp)
			if sp == nil {
				continue
			}
			for _, m := range sp.Members {
				switch x := m.(type) {
				case *ssa.Function:
					p.libCache[p.funcName(x)] = x
				case *ssa.Type:
					for _, t := range []types.Type{x.Type(), types.NewPointer(x.Type())} {
						ms := p.ssaProg.MethodSets.MethodSet(t)
						for i := 0; i < ms.Len(); i++ {
							if f := p.ssaProg.MethodValue(ms.At(i)); f != nil && f.Synthetic == "" {
								p.libCache[p.funcName(f)] = f
							}
						}
					}
				}
			}
		}
	}
	return p.libCache[name]
}

// fnPkg: the types package a function belongs to (also for closures, instantiations and synthetic wrappers).
func fnPkg(f *ssa.Function) *types.Package {
	for g := f; g != nil; g = g.Parent() {
		if g.Pkg != nil {
			return g.Pkg.Pkg
		}
		if o := g.Origin(); o != nil && o.Pkg != nil {
			return o.Pkg.Pkg
		}
		if g.Object() != nil && g.Object().Pkg() != nil {
			return g.Object().Pkg()
		}
	}
	return nil
}
