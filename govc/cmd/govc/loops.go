package main

// Loop cutting, obligations, channels, go, select.

import (
	"fmt"
	"go/types"
	"strings"

	"golang.org/x/tools/go/ssa"
)

func (ex *Exec) topContract() *FuncContract { return ex.vc.contract }

func (ex *Exec) siteOrdinal(ins ssa.Instruction) int {
	vc := ex.vc
	if n, ok := vc.siteOrd[ins]; ok {
		return n
	}
	n := len(vc.siteOrd) + 1
	vc.siteOrd[ins] = n
	return n
}

// obligation for panic sites and simple checks.
func (ex *Exec) obligation(fr *Frame, st *State, kind, clause, goal string, panicSite bool) {
	ord := ""
	if panicSite && ex.cur != nil {
		ord = fmt.Sprintf("%s@%d", strings.Fields(clause)[0], ex.siteOrdinal(ex.cur))
	}
	ex.obligationFull(fr, st, kind, clause, goal, panicSite, ord, true)
}

func (ex *Exec) obligationFull(fr *Frame, st *State, kind, clause, goal string, panicSite bool, ordinal string, ground bool) {
	vc := ex.vc
	if goal == "true" {
		// decided while the condition was generated (e.g. a comparison of two literals): no query, but the
		// obligation exists (the pins must still find it)
		if vc.collecting == 0 && !panicSite {
			n := fmt.Sprintf("%s#%s", vc.prog.funcName(vc.fn), kind)
			if ordinal != "" {
				n += "#" + ordinal
			}
			if vc.trivial == nil {
				vc.trivial = map[string]bool{}
			}
			vc.trivial[n] = true
		}
		return
	}
	if panicSite {
		c := ex.topContract()
		if c == nil || !c.NoPanic || vc.collecting > 0 || (len(c.NoPanicProps) > 0 && vc.prog.curProp != "" && !hasProp(c.NoPanicProps, vc.prog.curProp)) {
			st.assume(goal)
			return
		}
		if len(c.NoPanicProps) > 0 && len(vc.curProps) == 0 {
			vc.curProps = c.NoPanicProps
			defer func() { vc.curProps = nil }()
		}
	}
	if vc.collecting > 0 {
		st.assume(goal)
		return
	}
	name := fmt.Sprintf("%s#%s", vc.prog.funcName(vc.fn), kind)
	if ordinal != "" {
		name += "#" + ordinal
	}
	o := &Obligation{Name: name, Kind: kind, Clause: clause, Where: ex.where(), Trace: append([]string{}, st.trace...),
		Assumes: append([]string{}, st.pc...), Goal: goal, Func: vc.prog.funcName(vc.fn), Ground: ground, Props: vc.curProps}
	vc.obligations = append(vc.obligations, o)
	if kind != "protocol" {
		// protocol rules are independent checks: one that fails must not make the rest of the path vacuous
		st.assume(goal)
	}
}

// loopHead implements the cut. Returns true when execution of the header
// block should continue.
func (ex *Exec) loopHead(fr *Frame, b *ssa.BasicBlock, ord int, pred *ssa.BasicBlock, st *State, k Cont) bool {
	vc := ex.vc
	key := loopKey{fr.id, b}
	c := fr.contract
	var invs []*Clause
	var dec *Clause
	if c != nil {
		for _, inv := range c.LoopInv[ord] {
			// an invariant tagged with properties is a proof hint for those properties only
			if len(inv.Props) > 0 && vc.prog.curProp != "" && !hasProp(inv.Props, vc.prog.curProp) {
				continue
			}
			invs = append(invs, inv)
		}
		dec = c.LoopDec[ord]
	}
	pkg := fnPkg(fr.fn)
	evalInvs := func(s *State, goal bool) []string {
		var out []string
		for _, inv := range invs {
			env := ex.newEnv(s, vc.entryFor(fr), pkg, fr)
			env.useCells = true
			env.goal = goal
			ex.bindParams(env, fr)
			f := env.Bool(inv.Expr)
			if len(env.errs) > 0 {
				vc.fatalf("%s loop %d invariant %q: %s", vc.prog.funcName(fr.fn), ord, inv.Text, strings.Join(env.errs, "; "))
				return nil
			}
			out = append(out, f)
		}
		return out
	}
	evalDec := func(s *State) string {
		env := ex.newEnv(s, vc.entryFor(fr), pkg, fr)
		env.useCells = true
		ex.bindParams(env, fr)
		v := env.tr(dec.Expr)
		if len(env.errs) > 0 {
			vc.fatalf("%s loop %d decreases: %s", vc.prog.funcName(fr.fn), ord, strings.Join(env.errs, "; "))
			return "0"
		}
		return v.T.S
	}
	if le, active := st.loopIn[key]; active {
		// back edge
		fs := evalInvs(st, true)
		for i, f := range fs {
			ex.obligationFull(fr, st, "inv-preserved", invs[i].Text, f, false, fmt.Sprintf("loop%d.%d", ord, invs[i].Ordinal), false)
		}
		for _, h := range le.framed {
			cur := vc.heapGetByName(st, h)
			old := vc.heapGetByName(vc.entry, h)
			if cur.S == old.S {
				continue
			}
			ex.obligationFull(fr, st, "frame", "loop keeps objects that existed at entry unchanged: "+h,
				fmt.Sprintf("(forall ((r!f Int)) (=> (<= r!f alloc0) (= (select %s r!f) (select %s r!f))))", cur.S, old.S), false, fmt.Sprintf("loop%d.%s", ord, h), true)
		}
		if dec != nil && le.hasDec {
			d := evalDec(st)
			ex.obligationFull(fr, st, "decreases", dec.Text, and(app(">=", le.decPrev.S, "0"), app("<", d, le.decPrev.S)), false, fmt.Sprintf("loop%d", ord), false)
		}
		return false
	}
	// (a loop of an inlined helper without contract is cut like any loop without invariant)
	// entry
	fs := evalInvs(st, true)
	for i, f := range fs {
		ex.obligationFull(fr, st, "inv-entry", invs[i].Text, f, false, fmt.Sprintf("loop%d.%d", ord, invs[i].Ordinal), false)
	}
	// modified set by fixpoint over trial executions of the body
	ws := newWriteSet()
	pre := map[*Cell]bool{}
	for c := range st.cells {
		pre[c] = true
	}
	savedCur := ex.cur
	for iter := 0; iter < 6; iter++ {
		trial := st.clone()
		ex.havocSet(trial, ws, pre)
		rec := newWriteSet()
		trial.writes = rec
		trial.loopIn[key] = &loopEntry{}
		trial.colFrame, trial.colBody = fr.id, fr.loopBody[b]
		vc.collecting++
		saveFatal := len(vc.fatal)
		ex.run(fr, b, -1, pred, trial, func(*State, []Val, bool) {})
		vc.collecting--
		_ = saveFatal
		// keep only pre-existing cells
		for c := range rec.cells {
			if !pre[c] {
				delete(rec.cells, c)
			}
		}
		if rec.subsetOf(ws) {
			break
		}
		ws.add(rec)
	}
	ex.cur = savedCur
	outer := st.writes
	ex.havocSet(st, ws, pre)
	if outer != nil {
		outer.add(ws)
	}
	st.note("loop %d of %s: cut (havoc %d cells, %d heap components)", ord, fr.fn.Name(), len(ws.cells), len(ws.heaps))
	// implicit frame invariant: heap components outside the function's modifies clause keep the
	// objects that existed at function entry unchanged (fresh objects may be written freely)
	var framed []string
	if tc := ex.topContract(); tc != nil && tc.HasMod && !ws.all {
		menv := ex.newEnv(st, nil, fnPkg(vc.fn), fr)
		mods := ex.resolveModifies(tc, menv)
		if !mods.all {
			for _, h := range sortedKeys(ws.heaps) {
				if mods.heaps[h] || !(strings.HasPrefix(h, "H_") || strings.HasPrefix(h, "HP_") || strings.HasPrefix(h, "MD_") || strings.HasPrefix(h, "MV_")) {
					continue
				}
				cur := vc.heapGetByName(st, h)
				old := vc.heapGetByName(vc.entry, h)
				st.assume(fmt.Sprintf("(forall ((r!f Int)) (! (=> (<= r!f alloc0) (= (select %s r!f) (select %s r!f))) :pattern ((select %s r!f))))", cur.S, old.S, cur.S))
				framed = append(framed, h)
			}
		}
	}
	for _, f := range evalInvs(st, false) {
		st.assume(f)
	}
	le := &loopEntry{framed: framed}
	if dec != nil {
		le.hasDec = true
		le.decPrev = Term{evalDec(st), SInt}
	}
	st.loopIn[key] = le
	return true
}

func (ex *Exec) havocSet(st *State, ws *WriteSet, pre map[*Cell]bool) {
	vc := ex.vc
	st.backForget(nil)
	// earlier iterations may have allocated: the allocation frontier of an arbitrary iteration is some value
	// not below the one at loop entry (so that `allocated(x)` in an invariant speaks about the current frontier)
	if st.allocTop.S != "" {
		nt := vc.fresh("alloc_loop", SInt)
		st.assume(app(">=", nt.S, st.allocTop.S))
		st.allocTop = nt
	}
	if ws.all {
		ex.havocAll(st, true)
	}
	for _, c := range st.order {
		if ws.cells[c] && pre[c] {
			if c.boxed {
				continue
			}
			cur := st.cells[c]
			if cur.K != VTerm && cur.K != VNone {
				// structural value (pointer/closure) rewritten in the loop: keep only if it is a big-int pointer
				if cur.K == VPtr {
					st.cells[c] = tv(vc.fresh("loop_"+c.name, c.sort))
					continue
				}
				vc.fatalf("loop modifies the closure-valued local %s", c.name)
				continue
			}
			st.cells[c] = tv(vc.fresh("loop_"+c.name, c.sort))
		}
	}
	for _, h := range sortedKeys(ws.heaps) {
		ex.havocHeap(st, h)
	}
	for _, g := range sortedKeys(ws.ghost) {
		ex.havocGhost(st, g)
	}
}

func (vc *VC) entryFor(fr *Frame) *State {
	if fr != nil && fr.oldState != nil {
		return fr.oldState
	}
	return vc.entry
}

// bindParams binds the parameter names of the frame's function to their
// entry values (used for old-free references in requires/ensures).
func (ex *Exec) bindParams(env *Env, fr *Frame) {
	for i, fv := range fr.fn.FreeVars {
		if i < len(fr.free) && fr.free[i].K == VPtr {
			v := ex.load(env.st, fr.free[i].P)
			et := fv.Type().(*types.Pointer).Elem()
			if v.K == VTerm {
				env.params[fv.Name()] = TVal{T: v.T, Ty: et}
			} else if v.K == VPtr {
				env.params[fv.Name()] = TVal{T: ex.materialize(env.st, v.P), Ty: et}
			}
		}
	}
	for i, p := range fr.fn.Params {
		if i < len(fr.params) {
			v := fr.params[i]
			if v.K == VTerm {
				env.params[p.Name()] = TVal{T: v.T, Ty: p.Type()}
			} else if v.K == VPtr {
				env.params[p.Name()] = TVal{T: ex.materialize(env.st, v.P), Ty: p.Type()}
			}
			if fr.contract != nil && i < len(fr.contract.Alias) {
				env.params[fr.contract.Alias[i]] = env.params[p.Name()]
				if i == 0 && fr.contract.Alias[0] == "recv" && fr.contract.IfaceCheck {
					// an implementer checked against an interface contract: recv is the interface value holding the receiver
					pv := env.params[p.Name()]
					if pv.T.Sort != SAny {
						c := ex.vc.sorts.AnyCtor(p.Type())
						env.params["recv"] = TVal{T: Term{app(c.name, pv.T.S), SAny}}
					}
				}
			}
		}
	}
}

// channels -------------------------------------------------------------------

func (ex *Exec) closeChan(fr *Frame, st *State, c Term) {
	vc := ex.vc
	h := vc.heapGet(st, "CH_closed", "(Array Int Bool)")
	ex.obligation(fr, st, "nopanic", "close of closed channel", not(app("select", h.S, c.S)), true)
	ex.chanEvent(fr, st, "close", c, Term{})
	vc.heapSet(st, "CH_closed", Term{app("store", h.S, c.S, "true"), "(Array Int Bool)"})
}

func (ex *Exec) chanEvent(fr *Frame, st *State, ev string, c Term, msg Term) {
	// hook for channel invariants (see protocol.go)
	ex.chanHook(fr, st, ev, c, msg)
}

func (ex *Exec) recvInstr(fr *Frame, x *ssa.UnOp, st *State) {
	vc := ex.vc
	c := ex.toTerm(st, ex.val(fr, st, x.X), x.X.Type())
	et := x.X.Type().Underlying().(*types.Chan).Elem()
	v := vc.fresh("recv", vc.sorts.SortOf(et))
	ex.interfereUnlocked(fr, st)
	vc.curChanName, vc.curChanElem = chanSourceName(x.X), et
	ex.chanEvent(fr, st, "recv", c, v)
	if vc.closeOnly(vc.curChanName) {
		st.assume(app("select", vc.heapGet(st, "CH_closed", "(Array Int Bool)").S, c.S))
	}
	vc.curChanName = ""
	if x.CommaOk {
		fr.vals[x] = Val{K: VTuple, Tup: []Val{tv(v), tv(vc.fresh("recv_ok", SBool))}}
	} else {
		fr.vals[x] = tv(v)
	}
}

func (ex *Exec) sendInstr(fr *Frame, x *ssa.Send, st *State) {
	c := ex.toTerm(st, ex.val(fr, st, x.Chan), x.Chan.Type())
	et := x.Chan.Type().Underlying().(*types.Chan).Elem()
	v := ex.toTerm(st, ex.val(fr, st, x.X), et)
	ex.vc.curChanName, ex.vc.curChanElem = chanSourceName(x.Chan), et
	ex.chanEvent(fr, st, "send", c, v)
	ex.vc.curChanName = ""
}

func (ex *Exec) goInstr(fr *Frame, x *ssa.Go, st *State) {
	vc := ex.vc
	vc.note("go statement at %s: the spawned function's effects are not part of this function's obligations", ex.where())
	for _, a := range x.Call.Args {
		v := ex.val(fr, st, a)
		if v.K == VClosure {
			for _, b := range v.Bind {
				if b.K == VPtr && b.P.Kind == PCell {
					st.shared[b.P.Cell] = true
				}
			}
		}
	}
	if mc, ok := x.Call.Value.(*ssa.MakeClosure); ok {
		v := ex.val(fr, st, mc)
		for _, b := range v.Bind {
			if b.K == VPtr && b.P.Kind == PCell {
				st.shared[b.P.Cell] = true
			}
		}
	}
}

func (ex *Exec) selectInstr(fr *Frame, x *ssa.Select, st *State, k func(*State, Val)) {
	vc := ex.vc
	// result tuple: (index int, recvOk bool, r_0 T_0, ... r_n-1 T_n-1)
	nrecv := 0
	for _, s := range x.States {
		if s.Dir == types.RecvOnly {
			nrecv++
		}
	}
	mk := func(idx int, st2 *State) Val {
		tup := []Val{tv(Term{intLit(int64(idx)), SInt}), tv(vc.fresh("sel_ok", SBool))}
		for j, s := range x.States {
			if s.Dir == types.RecvOnly {
				et := s.Chan.Type().Underlying().(*types.Chan).Elem()
				v := vc.fresh("sel_recv", vc.sorts.SortOf(et))
				c := ex.toTerm(st2, ex.val(fr, st2, s.Chan), s.Chan.Type())
				if j == idx {
					vc.curChanName, vc.curChanElem = chanSourceName(s.Chan), et
					ex.chanEvent(fr, st2, "recv", c, v)
					if vc.closeOnly(vc.curChanName) {
						st2.assume(app("select", vc.heapGet(st2, "CH_closed", "(Array Int Bool)").S, c.S))
					}
					vc.curChanName = ""
				} else if idx == -1 && vc.closeOnly(chanSourceName(s.Chan)) {
					// default taken: no case was ready, and a closed channel is always ready
					st2.assume(not(app("select", vc.heapGet(st2, "CH_closed", "(Array Int Bool)").S, c.S)))
				}
				tup = append(tup, tv(v))
			}
		}
		return Val{K: VTuple, Tup: tup}
	}
	cur := ex.cur
	ex.interfereUnlocked(fr, st)
	for i, s := range x.States {
		st2 := st.clone()
		st2.note("%s: select case %d", ex.where(), i)
		if s.Dir == types.SendOnly {
			c := ex.toTerm(st2, ex.val(fr, st2, s.Chan), s.Chan.Type())
			et := s.Chan.Type().Underlying().(*types.Chan).Elem()
			v := ex.toTerm(st2, ex.val(fr, st2, s.Send), et)
			vc.curChanName, vc.curChanElem = chanSourceName(s.Chan), et
			ex.chanEvent(fr, st2, "send", c, v)
			vc.curChanName = ""
		}
		k(st2, mk(i, st2))
		ex.cur = cur
	}
	if !x.Blocking {
		st2 := st.clone()
		st2.note("%s: select default", ex.where())
		k(st2, mk(-1, st2))
	}
}
