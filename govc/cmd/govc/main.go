package main

import (
	"flag"
	"fmt"
	"os"
	"runtime/pprof"
	"sort"
	"strings"
	"time"
)

func main() {
	if len(os.Args) < 2 {
		fmt.Fprintln(os.Stderr, "usage: govc dev|check|replay ...")
		os.Exit(2)
	}
	if pf := os.Getenv("GOVC_CPUPROFILE"); pf != "" {
		if f, err := os.Create(pf); err == nil {
			pprof.StartCPUProfile(f)
			defer pprof.StopCPUProfile()
		}
	}
	switch os.Args[1] {
	case "dev":
		devMain(os.Args[2:])
	case "check":
		checkMain(os.Args[2:])
	case "replay":
		replayMain(os.Args[2:])
	default:
		fmt.Fprintln(os.Stderr, "unknown command", os.Args[1])
		os.Exit(2)
	}
}

func devMain(args []string) {
	fs := flag.NewFlagSet("dev", flag.ExitOnError)
	repo := fs.String("repo", "/repo", "repository root")
	pkgs := fs.String("pkgs", "./internal/machine", "comma separated package patterns")
	only := fs.String("func", "", "only functions whose name contains this")
	work := fs.String("work", "/verif/work/dev", "work dir")
	timeout := fs.Int("timeout", 10, "solver timeout (s)")
	verbose := fs.Bool("v", false, "verbose")
	onlyObl := fs.String("obl", "", "show details for obligations containing this")
	extraReq := fs.String("assume", "", "extra requires clause (development only)")
	list := fs.String("list", "", "list indexed function names containing this and exit")
	fs.Parse(args)
	t0 := time.Now()
	prog, err := LoadProgram(*repo, strings.Split(*pkgs, ","), "/verif/contracts/extern")
	if err != nil {
		fmt.Fprintln(os.Stderr, "load:", err)
		os.Exit(2)
	}
	fmt.Printf("loaded in %.1fs; %d contracts, %d parse errors\n", time.Since(t0).Seconds(), len(prog.contracts.Funcs), len(prog.contracts.Errors))
	for _, e := range prog.contracts.Errors {
		fmt.Println("  contract error:", e)
	}
	if *list != "" {
		for n := range prog.funcs {
			if strings.Contains(n, *list) {
				fmt.Println(n)
			}
		}
		return
	}
	var results []*FuncResult
	for _, name := range prog.contracts.Order {
		c := prog.contracts.Funcs[name]
		if c.Trusted || c.Kind != "func" || (c.Inline && len(c.Ensures) == 0) {
			continue
		}
		if *only != "" && !strings.Contains(name, *only) {
			continue
		}
		t1 := time.Now()
		if *extraReq != "" {
			e, err := ParseExpr(*extraReq)
			if err != nil {
				fmt.Println("bad --assume:", err)
				os.Exit(2)
			}
			c.Requires = append(c.Requires, &Clause{Text: *extraReq, Expr: e, Ordinal: 99})
		}
		r := prog.verifyFunc(name, c)
		fmt.Printf("%s: %d obligations, %d paths, %.2fs\n", name, len(r.Obligations), r.Paths, time.Since(t1).Seconds())
		for _, f := range r.Fatal {
			fmt.Println("  FATAL:", f)
		}
		if *verbose && r.VC != nil {
			var ns []string
			for n := range r.VC.notes {
				ns = append(ns, n)
			}
			sort.Strings(ns)
			for _, n := range ns {
				fmt.Println("  note:", n)
			}
		}
		results = append(results, r)
	}
	seenSpec := map[string]bool{}
	for i := 0; i < len(results); i++ {
		for _, sc := range results[i].SpecChecks {
			key := prog.funcName(sc.fn) + "@" + sc.spec.Name
			if seenSpec[key] {
				continue
			}
			seenSpec[key] = true
			r := prog.verifySpec(sc)
			fmt.Printf("%s: %d obligations, %d paths\n", r.Name, len(r.Obligations), r.Paths)
			for _, f := range r.Fatal {
				fmt.Println("  FATAL:", f)
			}
			if *verbose && r.VC != nil {
				var ns []string
				for n := range r.VC.notes {
					ns = append(ns, n)
				}
				sort.Strings(ns)
				for _, n := range ns {
					fmt.Println("  note:", n)
				}
			}
			results = append(results, r)
		}
	}
	os.RemoveAll(*work)
	t2 := time.Now()
	discharge(results, *work, *timeout, false, 16)
	fmt.Printf("solved in %.1fs\n", time.Since(t2).Seconds())
	for _, r := range results {
		byName := map[string][]*Obligation{}
		var order []string
		for _, o := range r.Obligations {
			if _, ok := byName[o.Name]; !ok {
				order = append(order, o.Name)
			}
			byName[o.Name] = append(byName[o.Name], o)
		}
		for _, n := range order {
			ok := true
			var ms int64
			for _, o := range byName[n] {
				if o.Status != "unsat" {
					ok = false
				}
				if o.Ms > ms {
					ms = o.Ms
				}
			}
			if ok {
				if *verbose {
					fmt.Printf("  ok   %s (%d paths, max %dms)\n", n, len(byName[n]), ms)
				}
			} else {
				fmt.Printf("  FAIL %s  [%s]\n", n, byName[n][0].Clause)
				nf := 0
				for _, o := range byName[n] {
					if o.Status != "unsat" {
						nf++
						if *onlyObl != "" && strings.Contains(n, *onlyObl) {
							fmt.Printf("       %s %s at %s file %s\n", o.Status, o.Solver, o.Where, o.File)
							for _, t := range o.Trace {
								fmt.Printf("           %s\n", t)
							}
						}
					}
				}
				fmt.Printf("       %d of %d paths fail\n", nf, len(byName[n]))
			}
		}
	}
}
