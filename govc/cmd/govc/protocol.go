package main

// Channel invariants, receive obligations, ghost updates, closure-spec checks.

import (
	"fmt"
	"go/types"
	"strings"

	"golang.org/x/tools/go/ssa"
)

// chanHook: close(c) must establish every declared channel invariant for c; a
// receive on c may assume them (they are required to be stable: they only
// mention monotone ghost state) and must satisfy the onrecv obligations.
func (ex *Exec) chanHook(fr *Frame, st *State, ev string, c Term, msg Term) {
	vc := ex.vc
	cs := vc.prog.contracts
	pkg := fr.fn.Pkg
	_ = pkg
	eval := func(ga *GlobalAssume, goal bool) (string, bool) {
		env := ex.newEnv(st, vc.entryFor(fr), ga.pkg, fr)
		env.goal = goal
		env.binds["c"] = TVal{T: c}
		f := env.Bool(ga.Expr)
		if len(env.errs) > 0 {
			vc.fatalf("channel rule %q: %s", ga.Text, strings.Join(env.errs, "; "))
			return "", false
		}
		return f, true
	}
	inScope := func(ga *GlobalAssume) bool {
		if len(ga.Scope) == 0 {
			return true
		}
		for f := fr; f != nil; f = f.caller {
			n := vc.prog.funcName(f.fn)
			for _, sc := range ga.Scope {
				if strings.Contains(n, sc) {
					return true
				}
			}
		}
		return false
	}
	switch ev {
	case "close":
		for i, ga := range cs.ChanInvs {
			if !inScope(ga) {
				continue
			}
			// evaluated in the state after the close
			h := vc.heapGet(st, "CH_closed", "(Array Int Bool)")
			st2 := st.clone()
			vc.heapSet(st2, "CH_closed", Term{app("store", h.S, c.S, "true"), "(Array Int Bool)"})
			env := ex.newEnv(st2, vc.entryFor(fr), ga.pkg, fr)
			env.goal = true
			env.binds["c"] = TVal{T: c}
			f := env.Bool(ga.Expr)
			if len(env.errs) > 0 {
				vc.fatalf("channel invariant %q: %s", ga.Text, strings.Join(env.errs, "; "))
				return
			}
			vc.curProps = ga.Props
			ex.obligationFull(fr, st, "protocol", "close establishes the channel invariant: "+ga.Text, f, false, fmt.Sprintf("chaninv%d@%d", i+1, ex.siteOrdinal(ex.cur)), false)
			vc.curProps = nil
		}
	case "recv":
		for i, ga := range cs.OnRecv {
			if !inScope(ga) {
				continue
			}
			if f, ok := eval(ga, true); ok {
				vc.curProps = ga.Props
				ex.obligationFull(fr, st, "protocol", "at a receive: "+ga.Text, f, false, fmt.Sprintf("onrecv%d@%d", i+1, ex.siteOrdinal(ex.cur)), false)
				vc.curProps = nil
			}
		}
		for _, ga := range cs.OnRecvUp {
			if !inScope(ga) {
				continue
			}
			env := ex.newEnv(st, vc.entryFor(fr), ga.pkg, fr)
			env.binds["c"] = TVal{T: c}
			v := env.tr(ga.Expr)
			if len(env.errs) > 0 {
				vc.fatalf("onrecv update %s: %s", ga.Ghost, strings.Join(env.errs, "; "))
				return
			}
			st.ghost[ga.Ghost] = v.T
			if st.writes != nil {
				st.writes.ghost[ga.Ghost] = true
			}
		}
		// a receive on an unbuffered struct{} channel returns after a send or the close;
		// channels governed by an invariant are only ever closed, never sent on
		h := vc.heapGet(st, "CH_closed", "(Array Int Bool)")
		for _, ga := range cs.ChanInvs {
			if !inScope(ga) {
				continue
			}
			st2 := st.clone()
			vc.heapSet(st2, "CH_closed", Term{app("store", h.S, c.S, "true"), "(Array Int Bool)"})
			env := ex.newEnv(st2, vc.entryFor(fr), ga.pkg, fr)
			env.binds["c"] = TVal{T: c}
			f := env.Bool(ga.Expr)
			if len(env.errs) == 0 {
				st.assume(f)
			}
		}
	}
}

// applyUpdates performs the ghost updates a contract declares for the return of its function.
func (ex *Exec) applyUpdates(st *State, c *FuncContract, env *Env) {
	vc := ex.vc
	for _, u := range c.Updates {
		v := env.tr(u.Expr)
		if len(env.errs) > 0 {
			vc.fatalf("ghost update %s = %s: %s", u.Ghost, u.Text, strings.Join(env.errs, "; "))
			return
		}
		st.ghost[u.Ghost] = v.T
		if st.writes != nil {
			st.writes.ghost[u.Ghost] = true
		}
	}
}

// checkImplements: `requires implements(param, Spec)` at a call site. The argument must
// resolve statically to a function or closure, whose body is then verified against the spec
// as a separate unit (free variables of a closure are treated as arbitrary).
func (ex *Exec) checkImplements(fr *Frame, r *Clause, args []Val, pnames []string, st *State) {
	vc := ex.vc
	c := r.Expr.(ECall)
	id, ok1 := c.Args[0].(EIdent)
	sn, ok2 := c.Args[1].(EIdent)
	if !ok1 || !ok2 {
		vc.fatalf("implements(param, Spec) expected: %s", r.Text)
		return
	}
	spec := vc.prog.contracts.Specs[sn.Name]
	if spec == nil {
		vc.fatalf("unknown closure spec %s", sn.Name)
		return
	}
	for i, pn := range pnames {
		if pn != id.Name || i >= len(args) {
			continue
		}
		a := args[i]
		if a.K == VTerm && a.T.Sort == SFunc {
			if cl, ok := vc.funcConsts[a.T.S]; ok {
				a = cl
			} else if sp, ok := vc.funcSpecs[a.T.S]; ok && sp == spec {
				return
			}
		}
		if a.K != VClosure || a.Fn == nil {
			ex.obligationFull(fr, st, "call-requires", "function argument must resolve statically to implement "+sn.Name, "false", false, "implements."+sn.Name, true)
			return
		}
		vc.specChecks = append(vc.specChecks, specCheck{fn: a.Fn, spec: spec})
		return
	}
	vc.fatalf("implements: no parameter named %s", id.Name)
}

type specCheck struct {
	fn   *ssa.Function
	spec *FuncContract
}

var _ = types.Typ
