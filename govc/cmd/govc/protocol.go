package main

// Channel invariants, closure-spec implementation checks (filled in later).

func (ex *Exec) chanHook(fr *Frame, st *State, ev string, c Term, msg Term) {}

func (ex *Exec) checkImplements(fr *Frame, r *Clause, args []Val, pnames []string, st *State) {}
