package main

// Channel invariants, receive obligations, ghost updates, closure-spec checks.

import (
	"fmt"
	"go/types"
	"strings"

	"golang.org/x/tools/go/ssa"
)

// chanHook: close(c) must establish every declared channel invariant for c; a
// receive on c may assume them (they are required to be stable: they only
// mention monotone ghost state) and must satisfy the onrecv obligations.
func (ex *Exec) chanHook(fr *Frame, st *State, ev string, c Term, msg Term) {
	vc := ex.vc
	cs := vc.prog.contracts
	ex.chanMsgHook(fr, st, ev, msg)
	pkg := fr.fn.Pkg
	_ = pkg
	eval := func(ga *GlobalAssume, goal bool) (string, bool) {
		env := ex.newEnv(st, vc.entryFor(fr), ga.pkg, fr)
		env.goal = goal
		env.binds["c"] = TVal{T: c}
		f := env.Bool(ga.Expr)
		if len(env.errs) > 0 {
			vc.fatalf("channel rule %q: %s", ga.Text, strings.Join(env.errs, "; "))
			return "", false
		}
		return f, true
	}
	inScope := func(ga *GlobalAssume) bool {
		if len(ga.Scope) == 0 {
			return true
		}
		for f := fr; f != nil; f = f.caller {
			n := vc.prog.funcName(f.fn)
			for _, sc := range ga.Scope {
				if strings.Contains(n, sc) {
					return true
				}
			}
		}
		return false
	}
	switch ev {
	case "close":
		for i, ga := range cs.ChanInvs {
			if !inScope(ga) {
				continue
			}
			// evaluated in the state after the close
			h := vc.heapGet(st, "CH_closed", "(Array Int Bool)")
			st2 := st.clone()
			vc.heapSet(st2, "CH_closed", Term{app("store", h.S, c.S, "true"), "(Array Int Bool)"})
			env := ex.newEnv(st2, vc.entryFor(fr), ga.pkg, fr)
			env.goal = true
			env.binds["c"] = TVal{T: c}
			f := env.Bool(ga.Expr)
			if len(env.errs) > 0 {
				vc.fatalf("channel invariant %q: %s", ga.Text, strings.Join(env.errs, "; "))
				return
			}
			vc.curProps = ga.Props
			ex.obligationFull(fr, st, "protocol", "close establishes the channel invariant: "+ga.Text, f, false, fmt.Sprintf("chaninv%d@%d", i+1, ex.siteOrdinal(ex.cur)), false)
			vc.curProps = nil
		}
	case "recv":
		for i, ga := range cs.OnRecv {
			if !inScope(ga) {
				continue
			}
			if f, ok := eval(ga, true); ok {
				vc.curProps = ga.Props
				ex.obligationFull(fr, st, "protocol", "at a receive: "+ga.Text, f, false, fmt.Sprintf("onrecv%d@%d", i+1, ex.siteOrdinal(ex.cur)), false)
				vc.curProps = nil
			}
		}
		for _, ga := range cs.OnRecvUp {
			if !inScope(ga) {
				continue
			}
			env := ex.newEnv(st, vc.entryFor(fr), ga.pkg, fr)
			env.binds["c"] = TVal{T: c}
			v := env.tr(ga.Expr)
			if len(env.errs) > 0 {
				vc.fatalf("onrecv update %s: %s", ga.Ghost, strings.Join(env.errs, "; "))
				return
			}
			st.ghost[ga.Ghost] = v.T
			if st.writes != nil {
				st.writes.ghost[ga.Ghost] = true
			}
		}
		// a receive on an unbuffered struct{} channel returns after a send or the close;
		// channels governed by an invariant are only ever closed, never sent on
		h := vc.heapGet(st, "CH_closed", "(Array Int Bool)")
		for _, ga := range cs.ChanInvs {
			if !inScope(ga) {
				continue
			}
			st2 := st.clone()
			vc.heapSet(st2, "CH_closed", Term{app("store", h.S, c.S, "true"), "(Array Int Bool)"})
			env := ex.newEnv(st2, vc.entryFor(fr), ga.pkg, fr)
			env.binds["c"] = TVal{T: c}
			f := env.Bool(ga.Expr)
			if len(env.errs) == 0 {
				st.assume(f)
			}
		}
	}
}

// applyUpdates performs the ghost updates a contract declares for the return of its function.
func (ex *Exec) applyUpdates(st *State, c *FuncContract, env *Env) {
	vc := ex.vc
	for _, u := range c.Updates {
		v := env.tr(u.Expr)
		if len(env.errs) > 0 {
			vc.fatalf("ghost update %s = %s: %s", u.Ghost, u.Text, strings.Join(env.errs, "; "))
			return
		}
		st.ghost[u.Ghost] = ex.nameLarge(st, "ghost_"+u.Ghost, v.T)
		if st.writes != nil {
			st.writes.ghost[u.Ghost] = true
		}
	}
}

// nameLarge: a large term is given a name (fresh constant equal to it), so that later terms built from it stay small.
func (ex *Exec) nameLarge(st *State, what string, t Term) Term {
	if len(t.S) < 400 {
		return t
	}
	n := ex.vc.fresh(what, t.Sort)
	st.assume(app("=", n.S, t.S))
	return n
}

// checkImplements: `requires implements(param, Spec)` at a call site. The argument must
// resolve statically to a function or closure, whose body is then verified against the spec
// as a separate unit (free variables of a closure are treated as arbitrary).
func (ex *Exec) checkImplements(fr *Frame, r *Clause, args []Val, pnames []string, st *State) {
	vc := ex.vc
	c := r.Expr.(ECall)
	id, ok1 := c.Args[0].(EIdent)
	sn, ok2 := c.Args[1].(EIdent)
	if !ok1 || !ok2 {
		vc.fatalf("implements(param, Spec) expected: %s", r.Text)
		return
	}
	spec := vc.prog.contracts.Specs[sn.Name]
	if spec == nil {
		vc.fatalf("unknown closure spec %s", sn.Name)
		return
	}
	for i, pn := range pnames {
		if pn != id.Name || i >= len(args) {
			continue
		}
		a := args[i]
		if a.K == VTerm && a.T.Sort == SFunc {
			if cl, ok := vc.funcConsts[a.T.S]; ok {
				a = cl
			} else if sp, ok := vc.funcSpecs[a.T.S]; ok && sp == spec {
				return
			}
		}
		if a.K != VClosure || a.Fn == nil {
			ex.obligationFull(fr, st, "call-requires", "function argument must resolve statically to implement "+sn.Name, "false", false, "implements."+sn.Name, true)
			return
		}
		vc.specChecks = append(vc.specChecks, specCheck{fn: a.Fn, spec: spec})
		return
	}
	vc.fatalf("implements: no parameter named %s", id.Name)
}

type specCheck struct {
	fn   *ssa.Function
	spec *FuncContract
}

var _ = types.Typ

// monitorEvent: Lock / Unlock of a mutex field for which monitors are declared. Lock forgets the protected
// state (other threads may have changed it) and assumes the invariants; Unlock must re-establish each
// invariant and forgets the protected state again.
func (ex *Exec) monitorEvent(fr *Frame, st *State, recv Val, lock bool) {
	vc := ex.vc
	if recv.K != VPtr || recv.P.Kind != PRef || len(recv.P.Path) != 1 || !recv.P.Path[0].IsField {
		return
	}
	p := recv.P
	var mds []*MonitorDecl
	for _, m := range vc.prog.contracts.Monitors {
		env := ex.newEnv(st, nil, m.pkg, fr)
		if _, s := env.resolveType(m.Type); s == p.SSort && m.Field == p.Path[0].FieldName {
			mds = append(mds, m)
		}
	}
	if len(mds) == 0 {
		return
	}
	havoc := func() {
		done := map[string]bool{}
		for _, md := range mds {
			for _, pr := range md.Protects {
				if done[pr] {
					continue
				}
				done[pr] = true
				if strings.HasPrefix(pr, "ghost ") {
					ex.havocGhost(st, strings.TrimSpace(pr[6:]))
					continue
				}
				f := pr
				if i := strings.LastIndex(pr, "."); i >= 0 {
					f = pr[i+1:]
				}
				si := vc.sorts.StructInfo(p.SSort)
				for _, fi := range si.fields {
					if fi.name == f {
						vc.writeField(st, p.Ref, p.SSort, f, vc.fresh("mon_"+f, fi.sort))
					}
				}
			}
		}
	}
	inv := func(md *MonitorDecl, goal bool) (string, bool) {
		e2 := ex.newEnv(st, vc.entryFor(fr), md.pkg, fr)
		selfTy, _ := e2.resolveType("*" + md.Type)
		e2.goal = goal
		e2.binds["self"] = TVal{T: p.Ref, Ty: selfTy}
		f := e2.Bool(md.Inv.Expr)
		if len(e2.errs) > 0 {
			vc.fatalf("monitor %s.%s invariant: %s", md.Type, md.Field, strings.Join(e2.errs, "; "))
			return "", false
		}
		return f, true
	}
	// Inside the function under verification the critical section is reasoned about sequentially (mutual
	// exclusion is the assumed contract of sync.Mutex): Lock assumes the invariants, Unlock must re-establish
	// them. What other threads do between two critical sections is visible to callers through the
	// modifies clauses of the functions that lock (their contracts say nothing about the protected state).
	_ = havoc
	if lock {
		for _, md := range mds {
			if md.Rely != nil {
				ex.interfere(fr, st, md, p.Ref)
				id := md.Type + "." + md.Field + "@" + p.Ref.S
				st.held = append(st.held, id)
				known := false
				for _, mi := range st.monInst {
					known = known || (mi.md == md && mi.self.S == p.Ref.S)
				}
				if !known {
					st.monInst = append(st.monInst, monInst{md: md, self: p.Ref})
				}
				continue
			}
			if f, ok := inv(md, false); ok {
				st.assume(f)
			}
		}
		return
	}
	for _, md := range mds {
		if md.Rely != nil {
			id := md.Type + "." + md.Field + "@" + p.Ref.S
			for i := len(st.held) - 1; i >= 0; i-- {
				if st.held[i] == id {
					st.held = append(append([]string{}, st.held[:i]...), st.held[i+1:]...)
					break
				}
			}
		}
	}
	for i, md := range mds {
		if f, ok := inv(md, true); ok {
			vc.curProps = md.Props
			ex.obligationFull(fr, st, "protocol", "unlock re-establishes the monitor invariant of "+md.Type+"."+md.Field+": "+md.Inv.Text, f, false, fmt.Sprintf("monitor.%s.%d", md.Field, i+1), false)
			vc.curProps = nil
		}
	}
}

// chanSourceName: the local, captured variable or field the channel operand was read from.
func chanSourceName(v ssa.Value) string {
	switch x := v.(type) {
	case *ssa.UnOp:
		switch a := x.X.(type) {
		case *ssa.Alloc:
			return a.Comment
		case *ssa.FreeVar:
			return a.Name()
		case *ssa.FieldAddr:
			if st, ok := a.X.Type().Underlying().(*types.Pointer).Elem().Underlying().(*types.Struct); ok {
				return st.Field(a.Field).Name()
			}
		}
	case *ssa.Parameter:
		return x.Name()
	}
	return ""
}

// chanMsgHook: message invariants of named channels (asserted at a send, assumed at a receive).
func (ex *Exec) chanMsgHook(fr *Frame, st *State, ev string, msg Term) {
	vc := ex.vc
	if (ev != "send" && ev != "recv") || vc.curChanName == "" || msg.S == "" {
		return
	}
	for i, ga := range vc.prog.contracts.ChanMsgs {
		if ga.Ghost != vc.curChanName {
			continue
		}
		if len(ga.Scope) > 0 && !ex.inScope(fr, ga.Scope) {
			continue
		}
		env := ex.newEnv(st, vc.entryFor(fr), ga.pkg, fr)
		env.goal = ev == "send"
		env.binds["m"] = TVal{T: msg, Ty: vc.curChanElem}
		f := env.Bool(ga.Expr)
		if len(env.errs) > 0 {
			vc.fatalf("chanmsg %s: %s", ga.Text, strings.Join(env.errs, "; "))
			return
		}
		if ev == "send" {
			vc.curProps = ga.Props
			ex.obligationFull(fr, st, "protocol", "a message sent on "+ga.Ghost+" satisfies: "+ga.Text, f, false, fmt.Sprintf("chanmsg%d@%d", i+1, ex.siteOrdinal(ex.cur)), false)
			vc.curProps = nil
		} else {
			st.assume(f)
		}
	}
}

type monInst struct {
	md   *MonitorDecl
	self Term
}

// interfere: the other threads run. The state the monitor protects (ghosts, the closed flag of its close-only channels)
// is forgotten; what is known afterwards is the monitor invariant (the mutex was free in between) and the declared
// interference relation between the state before and after.
func (ex *Exec) interfere(fr *Frame, st *State, md *MonitorDecl, self Term) {
	vc := ex.vc
	old := st.clone()
	for _, pr := range md.Protects {
		switch {
		case strings.HasPrefix(pr, "ghost "):
			ex.havocGhost(st, strings.TrimSpace(pr[6:]))
		case strings.HasPrefix(pr, "chan "):
			vc.heapGet(st, "CH_closed", "(Array Int Bool)")
			ex.havocHeap(st, "CH_closed")
		}
	}
	for _, cl := range []*Clause{md.Inv, md.Rely} {
		e2 := ex.newEnv(st, old, md.pkg, fr)
		selfTy, _ := e2.resolveType("*" + md.Type)
		e2.binds["self"] = TVal{T: self, Ty: selfTy}
		f := e2.Bool(cl.Expr)
		if len(e2.errs) > 0 {
			vc.fatalf("monitor %s.%s %q: %s", md.Type, md.Field, cl.Text, strings.Join(e2.errs, "; "))
			return
		}
		st.assume(f)
	}
	vc.usedExt["interference on the state protected by "+md.Type+"."+md.Field+": other threads change it only as declared ("+md.Rely.Text+"), mutual exclusion of sync.Mutex"] = true
}

// interfereUnlocked: before a channel operation, for every monitor with interference whose mutex is not held right now.
func (ex *Exec) interfereUnlocked(fr *Frame, st *State) {
	for _, mi := range st.monInst {
		id := mi.md.Type + "." + mi.md.Field + "@" + mi.self.S
		held := false
		for _, h := range st.held {
			held = held || h == id
		}
		if !held {
			ex.interfere(fr, st, mi.md, mi.self)
		}
	}
}

// closeOnly: the channel read from a field/variable of this name is only ever closed (declared: protects chan <name>).
func (vc *VC) closeOnly(name string) bool {
	if name == "" {
		return false
	}
	for _, m := range vc.prog.contracts.Monitors {
		for _, pr := range m.Protects {
			if pr == "chan "+name {
				return true
			}
		}
	}
	return false
}
