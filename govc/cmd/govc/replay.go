package main

// govc replay <file>: shows a violation record written by `govc check` and re-runs the failed query.
// A record names the failed obligation, the clause, the program path (branch decisions) on which it failed and
// the solver's answer. The verifier does not extract concrete inputs from solver models (its queries are
// quantified: the solvers answer unknown, not sat), so there is no failing input to execute; records say so
// (the VIOLATION line ends with no-failing-input-found). Known defects have hand-written replays under
// replays/findings, referenced from known_findings.txt.

import (
	"encoding/json"
	"fmt"
	"os"
)

func replayMain(args []string) {
	if len(args) < 1 {
		fmt.Fprintln(os.Stderr, "usage: govc replay <replay.json>")
		os.Exit(2)
	}
	data, err := os.ReadFile(args[0])
	if err != nil {
		fmt.Fprintln(os.Stderr, err)
		os.Exit(2)
	}
	var rec map[string]any
	if err := json.Unmarshal(data, &rec); err != nil {
		fmt.Fprintln(os.Stderr, "not a replay record:", err)
		os.Exit(2)
	}
	for _, k := range []string{"property", "obligation", "function", "kind", "clause", "where", "why"} {
		if v, ok := rec[k]; ok {
			fmt.Printf("%-11s %v\n", k+":", v)
		}
	}
	if p, ok := rec["path"].([]any); ok && len(p) > 0 {
		fmt.Println("path (branch decisions):")
		for _, s := range p {
			fmt.Println("   ", s)
		}
	}
	fmt.Println("failing input: none extracted (no-failing-input-found)")
	f, _ := rec["smt_file"].(string)
	if f == "" {
		fmt.Println("no solver query recorded for this violation (generation-time or pin check)")
		os.Exit(1)
	}
	if _, err := os.Stat(f); err != nil {
		fmt.Printf("solver query %s is no longer on disk (rerun the check); recorded answer: %v by %v\n", f, rec["solver_status"], rec["solver"])
		os.Exit(1)
	}
	r := solve(f, 10, true, "")
	fmt.Printf("re-running %s: %s (%s, %d ms)\n", f, r.status, r.solver, r.ms)
	if r.status == "unsat" {
		fmt.Println("the obligation is discharged now")
		os.Exit(0)
	}
	os.Exit(1)
}
