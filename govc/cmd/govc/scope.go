package main

// Owner scoping of SQL row sources (C04: entries of one ledger never affect another ledger sharing
// the database). Declared by
//
//   scoped <builder type> tables=a,b,c functions=f,g column=ledger owner=pkg.Type.field
//
// For every call of a text-taking method of the builder type whose text is a string literal:
//   R1  every `<column> = ?` in the text binds a placeholder; the argument at that position must be
//       the owner field of the store in scope (receiver, parameter or captured variable of the owner type);
//   R2  every call `f(?` of a listed SQL function passes the owner as its first argument, same rule;
//   R3  a listed table used as a row source (Table/TableExpr/ModelTableExpr, or `from t` / `join t`
//       inside the text) needs an owner predicate: on the same query object before the function that
//       introduced it returns (R1 applied through Where...), or in the same text, or a correlation
//       through a `_seq` key of an already scoped row (`x.seq = y.x_seq`). Names defined by With(name, ...) are not tables.
// Text that is not a literal (built by Sprintf from literals) is searched through its format string.

import (
	"fmt"
	"go/types"
	"regexp"
	"strings"

	"golang.org/x/tools/go/ssa"
)

type scopeNeed struct {
	q     Term
	table string
	where string
	ord   string
}

func (p *Program) scopeFor(callee *ssa.Function) *ScopeDecl {
	if len(p.contracts.Scopes) == 0 || callee.Signature.Recv() == nil {
		return nil
	}
	rt := types.TypeString(callee.Signature.Recv().Type(), nil)
	for _, sd := range p.contracts.Scopes {
		if sd.Recv == rt {
			return sd
		}
	}
	return nil
}

func (vc *VC) literalText(t Term) (string, bool) {
	if t.S == "str_empty" {
		return "", true
	}
	for s, n := range vc.strLits {
		if n == t.S {
			return s, true
		}
	}
	// Sprintf with a constant format: the format text
	if strings.HasPrefix(t.S, "(sprintf_") {
		name := strings.Fields(t.S[1:])[0]
		if f, ok := vc.sprintfFormats[name]; ok {
			return f, false
		}
	}
	return "", false
}

// ownerTerm: the owner field of the value of the owner type in scope.
func (ex *Exec) ownerTerm(fr *Frame, st *State, sd *ScopeDecl) (Term, bool) {
	i := strings.LastIndex(sd.Owner, ".")
	if i < 0 {
		return Term{}, false
	}
	tname, field := sd.Owner[:i], sd.Owner[i+1:]
	match := func(t types.Type) bool {
		if pt, ok := t.Underlying().(*types.Pointer); ok {
			return typeKey(pt.Elem()) == tname
		}
		return false
	}
	for f := fr; f != nil; f = f.caller {
		var v Val
		var ty types.Type
		for k, p := range f.fn.Params {
			if match(p.Type()) && k < len(f.params) {
				v, ty = f.params[k], p.Type()
			}
		}
		if ty == nil {
			for k, fv := range f.fn.FreeVars {
				et := fv.Type().(*types.Pointer).Elem()
				if match(et) && k < len(f.free) && f.free[k].K == VPtr {
					v, ty = ex.load(st, f.free[k].P), et
				}
			}
		}
		if ty == nil {
			continue
		}
		env := ex.newEnv(st, nil, nil, fr)
		env.binds["o!"] = TVal{T: ex.toTerm(st, v, ty), Ty: ty}
		r := env.tr(EField{X: EIdent{Name: "o!"}, Name: field})
		if len(env.errs) > 0 {
			return Term{}, false
		}
		return r.T, true
	}
	return Term{}, false
}

func (ex *Exec) scopeCall(fr *Frame, sd *ScopeDecl, callee *ssa.Function, args []Val, st *State) {
	vc := ex.vc
	sig := callee.Signature
	meth := callee.Name()
	if len(args) == 0 {
		return
	}
	q := ex.toTerm(st, args[0], nil)
	site := fmt.Sprintf("%s@%d", meth, ex.siteOrdinal(ex.cur))
	if meth == "With" || meth == "WithRecursive" {
		if len(args) > 1 {
			if name, ok := vc.literalText(ex.toTerm(st, args[1], nil)); ok {
				if st.ctes == nil {
					st.ctes = map[string]bool{}
				}
				st.ctes[strings.ToLower(name)] = true
			}
		}
		return
	}
	// text parameters and the bound arguments
	var texts []Term
	var bound []Term
	haveBound := false
	for i := 0; i < sig.Params().Len() && i+1 < len(args); i++ {
		pt := sig.Params().At(i).Type()
		switch u := pt.Underlying().(type) {
		case *types.Basic:
			if u.Kind() == types.String {
				texts = append(texts, ex.toTerm(st, args[i+1], pt))
			}
		case *types.Slice:
			t := ex.toTerm(st, args[i+1], pt)
			if b, ok := u.Elem().Underlying().(*types.Basic); ok && b.Kind() == types.String {
				if lit, ok := vc.seqLits[t.S]; ok {
					texts = append(texts, lit...)
				}
			} else if _, isIface := u.Elem().Underlying().(*types.Interface); isIface && sig.Variadic() && i == sig.Params().Len()-1 {
				if lit, ok := vc.seqLits[t.S]; ok {
					bound, haveBound = lit, true
				} else if t.S == "sq_empty_"+t.Sort {
					haveBound = true
				}
			}
		}
	}
	for ti, tt := range texts {
		ex.scopeText(fr, st, sd, meth, site, ti, tt, bound, haveBound, &q)
	}
}

// scopeText applies R1-R3 to one piece of SQL text with its bound arguments. q is the query object the text is
// added to (nil for text that is only returned, e.g. by a filter matcher).
func (ex *Exec) scopeText(fr *Frame, st *State, sd *ScopeDecl, meth, site string, ti int, tt Term, bound []Term, haveBound bool, q *Term) {
	vc := ex.vc
	oblig := func(name, clause, goal string) {
		vc.curProps = sd.Props
		ex.obligationFull(fr, st, "scope", clause, goal, false, name, true)
		vc.curProps = nil
	}
	tables := strings.Join(sd.Tables, "|")
	rePred := regexp.MustCompile(`(?i)\b(?:\w+\.)?` + regexp.QuoteMeta(sd.Column) + `\s*=\s*\?`)
	reSrc := regexp.MustCompile(`(?i)\b(?:from|join)\s+(` + tables + `)\b`)
	reSeq := regexp.MustCompile(`(?i)\w+_seq\b`)
	reCorr := regexp.MustCompile(`(?i)\b\w+\.seq\s*=\s*\w+\.\w+_seq\b|\b\w+\.\w+_seq\s*=\s*\w+\.seq\b`)
	var reFn *regexp.Regexp
	if len(sd.Functions) > 0 {
		reFn = regexp.MustCompile(`(?i)\b(?:` + strings.Join(sd.Functions, "|") + `)\s*\(\s*\?`)
	}
	strCtor := vc.sorts.AnyCtor(types.Typ[types.String])
	{
		text, exact := vc.literalText(tt)
		if text == "" {
			return
		}
		low := strings.ToLower(text)
		// R1 / R2: placeholders that carry the owner
		var ownerPos []int
		for _, m := range rePred.FindAllStringIndex(text, -1) {
			ownerPos = append(ownerPos, strings.Count(text[:m[1]-1], "?"))
		}
		if reFn != nil {
			for _, m := range reFn.FindAllStringIndex(text, -1) {
				ownerPos = append(ownerPos, strings.Count(text[:m[1]-1], "?"))
			}
		}
		predOK := len(rePred.FindAllStringIndex(text, -1)) > 0
		if len(ownerPos) > 0 {
			vc.usedExt["SQL text convention: `"+sd.Column+" = ?` and the first parameter of "+strings.Join(sd.Functions, ", ")+" select the rows of one "+sd.Column] = true
			owner, ok := ex.ownerTerm(fr, st, sd)
			for k, pos := range ownerPos {
				name := fmt.Sprintf("%s.owner.%d.%d", site, ti, k)
				clause := fmt.Sprintf("%s: the placeholder of `%s` / of the %s-scoped SQL function (argument %d) is bound to %s of the store", meth, sd.Column, sd.Column, pos, sd.Owner)
				switch {
				case !exact:
					oblig(name, clause+" [text is formatted: placeholder positions unknown]", "false")
				case !ok:
					oblig(name, clause+" [no value of the owner type in scope]", "false")
				case !haveBound || pos >= len(bound):
					oblig(name, clause+" [argument list not statically known or too short]", "false")
				default:
					oblig(name, clause, app("=", bound[pos].S, app(strCtor.name, owner.S)))
				}
			}
		}
		// R3: row sources
		if meth == "Table" || meth == "TableExpr" || meth == "ModelTableExpr" {
			first := strings.Trim(strings.Fields(low + " x")[0], `"`)
			for _, t := range sd.Tables {
				if first == t {
					if q != nil {
						st.scopeNeeds = append(st.scopeNeeds, scopeNeed{q: *q, table: t, where: ex.where(), ord: site})
					}
				}
			}
		}
		for _, m := range reSrc.FindAllStringSubmatch(text, -1) {
			t := strings.ToLower(m[1])
			if st.ctes[t] {
				continue
			}
			if !predOK && !reSeq.MatchString(text) {
				oblig(fmt.Sprintf("%s.source.%d.%s", site, ti, t), fmt.Sprintf("%s: the text reads from %s without a `%s = ?` predicate or a _seq correlation in the same text", meth, t, sd.Column), "false")
			}
		}
		// an owner predicate applied to this query object scopes it
		// (a correlation `x.seq = y.x_seq` ties the rows to an already scoped row of the enclosing query)
		if (predOK || reCorr.MatchString(text)) && (meth == "Where" || meth == "WhereOr" || meth == "Join" || meth == "JoinOn") {
			if q != nil {
				h := ex.scopeOK(st)
				st.ghost["global:scope_ok"] = Term{app("store", h.S, q.S, "true"), "(Array Int Bool)"}
			}
		}
	}
}

// scopeReturn: every row source introduced on this path has its owner predicate.
func (ex *Exec) scopeReturn(fr *Frame, st *State) {
	vc := ex.vc
	if len(st.scopeNeeds) == 0 || len(vc.prog.contracts.Scopes) == 0 {
		return
	}
	sd := vc.prog.contracts.Scopes[0]
	for _, n := range st.scopeNeeds {
		if st.ctes[n.table] {
			continue // the name denotes a CTE defined on this path
		}
		h := ex.scopeOK(st)
		vc.curProps = sd.Props
		ex.obligationFull(fr, st, "scope", fmt.Sprintf("the query reading table %s (introduced at %s) carries a `%s = ?` predicate when %s returns", n.table, n.where, sd.Column, shortName(vc.prog.funcName(fr.fn))), app("select", h.S, n.q.S), false, n.ord+".scoped."+n.table, true)
		vc.curProps = nil
	}
}

// scopeOK: the set of query objects that carry an owner predicate. A builder never loses a predicate, so the
// set survives calls whose effect is unknown.
func (ex *Exec) scopeOK(st *State) Term {
	if t, ok := st.ghost["global:scope_ok"]; ok {
		return t
	}
	ex.vc.declare("scope_ok_init", "(Array Int Bool)")
	return Term{"scope_ok_init", "(Array Int Bool)"}
}

// scopeResultText: a function verified against a closure spec named in `textresults=` returns SQL text (first
// result) and its bound arguments (second result); the text obeys R1-R3 like text handed to the builder.
func (ex *Exec) scopeResultText(fr *Frame, st *State, rets []Val) {
	vc := ex.vc
	if len(vc.prog.contracts.Scopes) == 0 || fr.contract == nil || len(rets) < 2 {
		return
	}
	sd := vc.prog.contracts.Scopes[0]
	ok := false
	for _, sp := range sd.TextResults {
		if fr.contract.SpecOf == sp {
			ok = true
		}
	}
	if !ok {
		return
	}
	sig := fr.fn.Signature
	text := ex.toTerm(st, rets[0], sig.Results().At(0).Type())
	bt := ex.toTerm(st, rets[1], sig.Results().At(1).Type())
	var bound []Term
	have := false
	if lit, ok := vc.seqLits[bt.S]; ok {
		bound, have = lit, true
	} else if bt.S == "sq_empty_"+bt.Sort || strings.HasPrefix(bt.S, "sq_empty") {
		have = true
	}
	ex.scopeText(fr, st, sd, "return", fmt.Sprintf("return@%d", ex.siteOrdinal(ex.cur)), 0, text, bound, have, nil)
}
