package main

// Solver driver: portfolio per obligation, parallel over obligations.

import (
	"bytes"
	"context"
	"fmt"
	"os"
	"os/exec"
	"path/filepath"
	"strings"
	"sync"
	"time"
)

type solverSpec struct {
	name string
	cmd  []string
}

func solvers(timeoutS int, thorough bool) []solverSpec {
	ss := []solverSpec{
		{"z3-5.1.0", []string{"z3-new", fmt.Sprintf("-T:%d", timeoutS), "-smt2"}},
		{"z3-4.8.12", []string{"z3", fmt.Sprintf("-T:%d", timeoutS), "-smt2"}},
	}
	if thorough {
		ss = append(ss, solverSpec{"cvc5-1.0", []string{"cvc5", "--enum-inst", fmt.Sprintf("--tlimit=%d", timeoutS*1000)}})
	}
	return ss
}

type solveResult struct {
	status string // unsat | sat | unknown | timeout | error
	solver string
	ms     int64
	output string
	all    map[string]string
}

func runSolver(ctx context.Context, s solverSpec, file string, timeoutS int) (string, string, int64) {
	start := time.Now()
	cctx, cancel := context.WithTimeout(ctx, time.Duration(timeoutS+2)*time.Second)
	defer cancel()
	args := append(append([]string{}, s.cmd[1:]...), file)
	cmd := exec.CommandContext(cctx, s.cmd[0], args...)
	var out bytes.Buffer
	cmd.Stdout = &out
	cmd.Stderr = &out
	_ = cmd.Run()
	ms := time.Since(start).Milliseconds()
	text := out.String()
	first := strings.TrimSpace(strings.SplitN(strings.TrimSpace(text), "\n", 2)[0])
	if strings.TrimSpace(text) == "" && cctx.Err() == nil && ctx.Err() == nil {
		// the solver process produced nothing (could not start, was killed): not an answer about the query
		return "noanswer", text, ms
	}
	switch {
	case strings.Contains(text, "(error "):
		return "error", text, ms
	case first == "unsat":
		return "unsat", text, ms
	case first == "sat":
		return "sat", text, ms
	case first == "unknown":
		return "unknown", text, ms
	case strings.Contains(first, "timeout") || cctx.Err() != nil:
		return "timeout", text, ms
	}
	return "error", text, ms
}

// solve races the portfolio: the first definite answer (unsat or sat) wins.
func solve(file string, timeoutS int, thorough bool, cvcFile string) solveResult {
	ss := solvers(timeoutS, thorough)
	ctx, cancel := context.WithCancel(context.Background())
	defer cancel()
	type r struct {
		s      solverSpec
		status string
		out    string
		ms     int64
	}
	ch := make(chan r, len(ss))
	for _, s := range ss {
		s := s
		go func() {
			f := file
			if strings.HasPrefix(s.name, "cvc5") && cvcFile != "" {
				f = cvcFile
			}
			st, out, ms := runSolver(ctx, s, f, timeoutS)
			ch <- r{s, st, out, ms}
		}()
	}
	res := solveResult{status: "unknown", all: map[string]string{}}
	for range ss {
		x := <-ch
		res.all[x.s.name] = x.status
		if x.status == "unsat" || x.status == "sat" {
			if res.status != "unsat" && res.status != "sat" {
				res.status, res.solver, res.ms, res.output = x.status, x.s.name, x.ms, x.out
				if !thorough {
					cancel() // quick tier: the first definite answer wins
				}
			} else if thorough && x.status != res.status {
				// thorough tier: every solver runs to its end; two definite answers that differ are reported
				res.status, res.solver, res.output = "disagree", res.solver+" vs "+x.s.name, "solvers disagree: "+res.status+" / "+x.status
			}
		} else if res.status != "unsat" && res.status != "sat" {
			if res.solver == "" || x.status == "unknown" {
				res.status, res.solver, res.ms, res.output = x.status, x.s.name, x.ms, x.out
			}
		}
	}
	return res
}

// cvc5 does not accept z3's option names.
func toCVC(q string) string {
	var b strings.Builder
	b.WriteString("(set-logic ALL)\n")
	for _, l := range strings.Split(q, "\n") {
		if strings.HasPrefix(l, "(set-option :smt.") || strings.HasPrefix(l, "(set-option :auto_config") {
			continue
		}
		b.WriteString(l)
		b.WriteString("\n")
	}
	return b.String()
}

// discharge runs all obligations of all function results. Obligations of one
// group (the ensures clauses at one return) are first tried as one conjunction.
func discharge(results []*FuncResult, workDir string, timeoutS int, thorough bool, jobs int) {
	os.MkdirAll(workDir, 0o755)
	type job struct {
		os  []*Obligation
		pre string
		idx int
	}
	var js []job
	n := 0
	for _, r := range results {
		groups := map[int]int{} // group -> index in js
		for _, o := range r.Obligations {
			n++
			if o.Group > 0 {
				if gi, ok := groups[o.Group]; ok {
					js[gi].os = append(js[gi].os, o)
					continue
				}
				groups[o.Group] = len(js)
			}
			js = append(js, job{[]*Obligation{o}, r.Preamble, n})
		}
	}
	var wg sync.WaitGroup
	sem := make(chan struct{}, jobs)
	runOne := func(o *Obligation, pre string, idx int) {
		q := o.Query(pre)
		f := filepath.Join(workDir, fmt.Sprintf("%04d_%s.smt2", idx, sanitize(o.Name)))
		if len(f) > 200 {
			f = f[:200] + ".smt2"
		}
		os.WriteFile(f, []byte(q), 0o644)
		cf := ""
		if thorough {
			cf = strings.TrimSuffix(f, ".smt2") + ".cvc5.smt2"
			os.WriteFile(cf, []byte(toCVC(q)), 0o644)
		}
		o.File = f
		r := solve(f, timeoutS, thorough, cf)
		o.Status, o.Solver, o.Ms, o.Output = r.status, r.solver, r.ms, r.output
	}
	for _, j := range js {
		j := j
		wg.Add(1)
		sem <- struct{}{}
		go func() {
			defer wg.Done()
			defer func() { <-sem }()
			if len(j.os) == 1 {
				runOne(j.os[0], j.pre, j.idx)
				return
			}
			// combined query
			seen := map[string]bool{}
			var assumes []string
			var goals []string
			for _, o := range j.os {
				for _, a := range o.Assumes {
					if !seen[a] {
						seen[a] = true
						assumes = append(assumes, a)
					}
				}
				goals = append(goals, o.Goal)
			}
			comb := &Obligation{Name: j.os[0].Name + "+group", Clause: fmt.Sprintf("%d clauses at one return", len(j.os)), Where: j.os[0].Where, Trace: j.os[0].Trace, Assumes: assumes, Goal: and(goals...)}
			runOne(comb, j.pre, j.idx)
			if comb.Status == "unsat" {
				for _, o := range j.os {
					o.Status, o.Solver, o.Ms, o.File = "unsat", comb.Solver, comb.Ms/int64(len(j.os)), comb.File
				}
				return
			}
			for k, o := range j.os {
				o.Assumes = assumes
				runOne(o, j.pre, j.idx*100+k)
			}
		}()
	}
	wg.Wait()
	// second chance, one at a time: an obligation that was not discharged while 16 solver processes competed
	// for the machine (or whose solver process died) is tried again alone with twice the time before it is reported
	for _, j := range js {
		for k, o := range j.os {
			if o.Status == "unsat" || o.Status == "" {
				continue
			}
			if strings.Contains(o.Output, "(error ") {
				continue // a malformed query stays an error
			}
			first := o.Status
			q := o.Query(j.pre)
			f := filepath.Join(workDir, fmt.Sprintf("%04d_retry%d_%s.smt2", j.idx, k, sanitize(o.Name)))
			if len(f) > 200 {
				f = f[:200] + ".smt2"
			}
			os.WriteFile(f, []byte(q), 0o644)
			cf := ""
			if thorough {
				cf = strings.TrimSuffix(f, ".smt2") + ".cvc5.smt2"
				os.WriteFile(cf, []byte(toCVC(q)), 0o644)
			}
			r := solve(f, timeoutS*2, thorough, cf)
			if r.status == "timeout" || r.status == "noanswer" {
				// still no answer: the machine may be very busy (other checks running at the same time). Once more with six
				// times the time; an obligation that really cannot be proved answers `unknown` quickly and is not retried here
				r2 := solve(f, timeoutS*6, thorough, cf)
				r2.ms += r.ms
				r = r2
			}
			if r.status == "unsat" {
				o.Status, o.Solver, o.Ms, o.File = "unsat", r.solver+" (retry after "+first+")", o.Ms+r.ms, f
			} else if o.Status == "noanswer" || o.Status == "error" {
				o.Status, o.Solver, o.Output = r.status, r.solver, r.output
			}
		}
	}
}
