package main

// Sorts: mapping from Go types to SMT sorts, and the emission of the
// declarations (datatypes, sequence sorts with their axioms, heaps).

import (
	"fmt"
	"go/types"
	"sort"
	"strings"
)

// Term is an SMT-LIB term with its sort.
type Term struct {
	S    string
	Sort string
}

func (t Term) String() string { return t.S }

const (
	SBool   = "Bool"
	SInt    = "Int"
	SReal   = "Real"
	SStr    = "Str"    // uninterpreted strings (equality + uninterpreted concat)
	SOptInt = "OptInt" // *big.Int / *MonetaryInt: nil | some(Int)
	SOptRat = "OptRat" // *big.Rat
	SAny    = "Any"    // every interface value
	SRef    = "Int"    // pointers to structs, maps, channels: object identities
	SFunc   = "Func"   // opaque function values
)

type structInfo struct {
	sort   string
	typ    *types.Struct
	named  types.Type
	fields []fieldInfo
}

type fieldInfo struct {
	name string
	sort string
	typ  types.Type
}

type anyCtor struct {
	name string // constructor name
	sel  string // selector name
	sort string // payload sort
	typ  types.Type
}

// SortTable collects every sort used by one verification unit.
type SortTable struct {
	repoPrefixes []string
	structs      map[string]*structInfo // by sort name
	structOrder  []string
	seqs         map[string]string // seq sort -> elem sort
	seqOrder     []string
	opaque       map[string]bool
	anyCtors     map[string]*anyCtor // by types.TypeString
	anyOrder     []string
	typeCache    map[types.Type]string
	names        map[string]types.Type // sort name -> go type (collision detection)
	mapSorts     map[string][2]string  // "K|V" -> sorts
	zeroConsts   map[string]bool
}

func NewSortTable(repoPrefixes []string) *SortTable {
	return &SortTable{
		repoPrefixes: repoPrefixes,
		structs:      map[string]*structInfo{},
		seqs:         map[string]string{},
		opaque:       map[string]bool{},
		anyCtors:     map[string]*anyCtor{},
		typeCache:    map[types.Type]string{},
		names:        map[string]types.Type{},
		mapSorts:     map[string][2]string{},
		zeroConsts:   map[string]bool{},
	}
}

func sanitize(s string) string {
	var b strings.Builder
	for _, r := range s {
		switch {
		case r >= 'a' && r <= 'z', r >= 'A' && r <= 'Z', r >= '0' && r <= '9', r == '_':
			b.WriteRune(r)
		default:
			b.WriteByte('_')
		}
	}
	return b.String()
}

func (st *SortTable) inRepo(pkg *types.Package) bool {
	if pkg == nil {
		return false
	}
	for _, p := range st.repoPrefixes {
		if strings.HasPrefix(pkg.Path(), p) {
			return true
		}
	}
	return false
}

func shortTypeName(n *types.Named) string {
	obj := n.Obj()
	name := obj.Name()
	if obj.Pkg() != nil {
		name = obj.Pkg().Name() + "_" + name
	}
	if ta := n.TypeArgs(); ta != nil && ta.Len() > 0 {
		for i := 0; i < ta.Len(); i++ {
			name += "_" + sanitize(types.TypeString(ta.At(i), func(p *types.Package) string { return p.Name() }))
		}
	}
	return sanitize(name)
}

func isBigInt(t types.Type) bool {
	n, ok := t.(*types.Named)
	if !ok {
		return false
	}
	o := n.Obj()
	if o.Pkg() == nil {
		return false
	}
	if o.Pkg().Path() == "math/big" && o.Name() == "Int" {
		return true
	}
	// named types whose underlying type is big.Int's struct (MonetaryInt)
	if u, ok := n.Underlying().(*types.Struct); ok && u.NumFields() == 2 && u.Field(0).Name() == "neg" && u.Field(1).Name() == "abs" {
		return true
	}
	return false
}

func isBigRat(t types.Type) bool {
	n, ok := t.(*types.Named)
	if !ok {
		return false
	}
	o := n.Obj()
	return o.Pkg() != nil && o.Pkg().Path() == "math/big" && o.Name() == "Rat"
}

// SortOf returns the SMT sort for a Go type.
func (st *SortTable) SortOf(t types.Type) string {
	if s, ok := st.typeCache[t]; ok {
		return s
	}
	s := st.sortOf(t)
	st.typeCache[t] = s
	return s
}

func (st *SortTable) sortOf(t types.Type) string {
	t = types.Unalias(t)
	switch tt := t.(type) {
	case *types.Basic:
		switch {
		case tt.Info()&types.IsBoolean != 0:
			return SBool
		case tt.Info()&types.IsInteger != 0:
			return SInt
		case tt.Info()&types.IsFloat != 0:
			return SReal
		case tt.Info()&types.IsString != 0:
			return SStr
		case tt.Kind() == types.UnsafePointer:
			return SRef
		case tt.Kind() == types.UntypedNil:
			return SAny
		}
		return st.opaqueSort("O_basic_" + sanitize(tt.Name()))
	case *types.Named:
		if isBigInt(tt) {
			return SInt
		}
		if isBigRat(tt) {
			return SReal
		}
		switch u := tt.Underlying().(type) {
		case *types.Struct:
			if !st.inRepo(tt.Obj().Pkg()) && !transparentExternal[tt.Obj().Pkg().Path()+"."+tt.Obj().Name()] {
				return st.opaqueSort("O_" + shortTypeName(tt))
			}
			return st.structSort(shortTypeName(tt), u, tt)
		case *types.Interface:
			return SAny
		default:
			return st.SortOf(u)
		}
	case *types.Pointer:
		e := types.Unalias(tt.Elem())
		if isBigInt(e) {
			return SOptInt
		}
		if isBigRat(e) {
			return SOptRat
		}
		return SRef
	case *types.Struct:
		if tt.NumFields() == 0 {
			return st.structSort("Unit", tt, tt)
		}
		var names []string
		for i := 0; i < tt.NumFields(); i++ {
			names = append(names, tt.Field(i).Name())
		}
		return st.structSort("Anon_"+sanitize(strings.Join(names, "_")), tt, tt)
	case *types.Slice:
		return st.seqSort(st.SortOf(tt.Elem()))
	case *types.Array:
		return st.seqSort(st.SortOf(tt.Elem()))
	case *types.Map:
		st.mapHeaps(tt)
		return SRef
	case *types.Chan:
		return SRef
	case *types.Interface:
		return SAny
	case *types.Signature:
		return SFunc
	case *types.Tuple:
		return "Tuple"
	case *types.TypeParam:
		return SAny
	}
	return st.opaqueSort("O_" + sanitize(t.String()))
}

func (st *SortTable) opaqueSort(name string) string {
	st.opaque[name] = true
	return name
}

func (st *SortTable) structSort(base string, u *types.Struct, named types.Type) string {
	name := "S_" + base
	if prev, ok := st.names[name]; ok && !types.Identical(prev, named) && !sameUpToTypeParams(prev, named) {
		// collision between packages with the same name: disambiguate
		name = name + "_" + fmt.Sprint(len(st.names))
	}
	if _, ok := st.structs[name]; ok {
		return name
	}
	st.names[name] = named
	si := &structInfo{sort: name, typ: u, named: named}
	st.structs[name] = si
	st.typeCache[named] = name
	for i := 0; i < u.NumFields(); i++ {
		f := u.Field(i)
		si.fields = append(si.fields, fieldInfo{name: f.Name(), sort: st.SortOf(f.Type()), typ: f.Type()})
	}
	st.structOrder = append(st.structOrder, name)
	return name
}

func (st *SortTable) seqSort(elem string) string {
	name := "Seq_" + sanitize(elem)
	if _, ok := st.seqs[name]; !ok {
		st.seqs[name] = elem
		st.seqOrder = append(st.seqOrder, name)
	}
	return name
}

func (st *SortTable) mapHeaps(m *types.Map) (dom, val string) {
	k := st.SortOf(m.Key())
	v := st.SortOf(m.Elem())
	// one heap per Go map type: maps of different types never alias
	q := func(p *types.Package) string { return p.Name() }
	key := sanitize(types.TypeString(m.Key(), q)) + "_" + sanitize(types.TypeString(m.Elem(), q))
	if len(key) > 80 {
		key = key[:80]
	}
	st.mapSorts[key] = [2]string{k, v}
	return "MD_" + key, "MV_" + key
}

func (st *SortTable) StructInfo(sortName string) *structInfo { return st.structs[sortName] }

func fieldSel(structSort, field string) string { return structSort + "_" + field }

// AnyCtor returns the constructor of the universal interface datatype for the
// dynamic type t.
func (st *SortTable) AnyCtor(t types.Type) *anyCtor {
	t = types.Unalias(t)
	key := types.TypeString(t, nil)
	if c, ok := st.anyCtors[key]; ok {
		return c
	}
	n := sanitize(types.TypeString(t, func(p *types.Package) string { return p.Name() }))
	if len(n) > 60 {
		n = n[:60] + fmt.Sprint(len(st.anyCtors))
	}
	c := &anyCtor{name: "any_" + n, sel: "un_" + n, sort: st.SortOf(t), typ: t}
	if c.sort == SAny {
		// an interface stored in an interface keeps its dynamic type; no boxing
		c.sort = SAny
	}
	// avoid duplicate names
	for _, o := range st.anyCtors {
		if o.name == c.name {
			c.name += fmt.Sprint(len(st.anyCtors))
			c.sel += fmt.Sprint(len(st.anyCtors))
		}
	}
	st.anyCtors[key] = c
	st.anyOrder = append(st.anyOrder, key)
	return c
}

// Zero returns the zero value of sort s.
func (st *SortTable) Zero(s string) Term {
	switch s {
	case SBool:
		return Term{"false", SBool}
	case SInt:
		return Term{"0", SInt}
	case SReal:
		return Term{"0.0", SReal}
	case SStr:
		return Term{"str_empty", SStr}
	case SOptInt:
		return Term{"oi_none", SOptInt}
	case SOptRat:
		return Term{"or_none", SOptRat}
	case SAny:
		return Term{"any_nil", SAny}
	case SFunc:
		return Term{"func_nil", SFunc}
	}
	if strings.HasPrefix(s, "Seq_") {
		return Term{"sq_empty_" + s, s}
	}
	if si, ok := st.structs[s]; ok {
		if len(si.fields) == 0 {
			return Term{"mk_" + s, s}
		}
		parts := []string{"mk_" + s}
		for _, f := range si.fields {
			parts = append(parts, st.Zero(f.sort).S)
		}
		return Term{"(" + strings.Join(parts, " ") + ")", s}
	}
	st.zeroConsts[s] = true
	return Term{"zero_" + s, s}
}

// Preamble emits all sort, datatype and axiom declarations.
func (st *SortTable) Preamble(folds []*FoldDecl) string {
	var b strings.Builder
	b.WriteString("(declare-sort Str 0)\n(declare-sort Func 0)\n(declare-const func_nil Func)\n(declare-const str_empty Str)\n")
	b.WriteString("(declare-fun str_cat (Str Str) Str)\n(declare-fun str_len (Str) Int)\n(assert (forall ((s Str)) (! (>= (str_len s) 0) :pattern ((str_len s)))))\n(assert (= (str_len str_empty) 0))\n(assert (forall ((s Str)) (! (=> (= (str_len s) 0) (= s str_empty)) :pattern ((str_len s)))))\n(assert (forall ((a Str) (b Str)) (! (= (str_len (str_cat a b)) (+ (str_len a) (str_len b))) :pattern ((str_cat a b)))))\n")
	// the sort table may grow while we print (zero values), so iterate to a fixpoint first
	for {
		n := len(st.structOrder) + len(st.seqOrder) + len(st.anyOrder) + len(st.opaque)
		for _, s := range append([]string{}, st.structOrder...) {
			st.Zero(s)
		}
		for _, s := range append([]string{}, st.seqOrder...) {
			st.Zero(st.seqs[s])
		}
		if n == len(st.structOrder)+len(st.seqOrder)+len(st.anyOrder)+len(st.opaque) {
			break
		}
	}
	var ops []string
	for o := range st.opaque {
		ops = append(ops, o)
	}
	sort.Strings(ops)
	for _, o := range ops {
		fmt.Fprintf(&b, "(declare-sort %s 0)\n", o)
	}
	for _, s := range st.seqOrder {
		fmt.Fprintf(&b, "(declare-sort %s 0)\n", s)
	}
	// datatypes, all mutually recursive
	var heads, bodies []string
	heads = append(heads, "(OptInt 0)", "(OptRat 0)", "(Any 0)")
	bodies = append(bodies, "((oi_none) (oi_some (oi_val Int)))", "((or_none) (or_some (or_val Real)))")
	anyBody := "((any_nil) (any_other (any_other_tag Int) (any_other_id Int))"
	for _, k := range st.anyOrder {
		c := st.anyCtors[k]
		anyBody += fmt.Sprintf(" (%s (%s %s))", c.name, c.sel, c.sort)
	}
	anyBody += ")"
	bodies = append(bodies, anyBody)
	for _, s := range st.structOrder {
		si := st.structs[s]
		heads = append(heads, fmt.Sprintf("(%s 0)", s))
		body := "((mk_" + s
		for _, f := range si.fields {
			body += fmt.Sprintf(" (%s %s)", fieldSel(s, f.name), f.sort)
		}
		body += "))"
		bodies = append(bodies, body)
	}
	fmt.Fprintf(&b, "(declare-datatypes (%s) (%s))\n", strings.Join(heads, " "), strings.Join(bodies, "\n "))
	var zs []string
	for z := range st.zeroConsts {
		zs = append(zs, z)
	}
	sort.Strings(zs)
	for _, z := range zs {
		fmt.Fprintf(&b, "(declare-const zero_%s %s)\n", z, z)
	}
	for _, s := range st.seqOrder {
		b.WriteString(seqAxioms(s, st.seqs[s], st.Zero(st.seqs[s]).S))
	}
	return b.String()
}

// seqAxioms: Dafny-style sequence theory for one element sort. No arithmetic
// appears inside a trigger.
func seqAxioms(S, E, zero string) string {
	r := strings.NewReplacer("$S", S, "$E", E, "$Z", zero)
	return r.Replace(`; ---- sequences $S of $E
(declare-fun sq_len_$S ($S) Int)
(declare-fun sq_at_$S ($S Int) $E)
(declare-const sq_empty_$S $S)
(declare-fun sq_snoc_$S ($S $E) $S)
(declare-fun sq_concat_$S ($S $S) $S)
(declare-fun sq_update_$S ($S Int $E) $S)
(declare-fun sq_sub_$S ($S Int Int) $S)
(declare-fun sq_rev_$S ($S) $S)
(declare-fun sq_zeros_$S (Int) $S)
(assert (forall ((s $S)) (! (>= (sq_len_$S s) 0) :pattern ((sq_len_$S s)))))
(assert (= (sq_len_$S sq_empty_$S) 0))
(assert (forall ((s $S)) (! (=> (= (sq_len_$S s) 0) (= s sq_empty_$S)) :pattern ((sq_len_$S s)))))
(assert (forall ((s $S) (e $E)) (! (= (sq_len_$S (sq_snoc_$S s e)) (+ (sq_len_$S s) 1)) :pattern ((sq_snoc_$S s e)))))
(assert (forall ((s $S) (e $E)) (! (= (sq_at_$S (sq_snoc_$S s e) (sq_len_$S s)) e) :pattern ((sq_snoc_$S s e)))))
(assert (forall ((s $S) (e $E) (i Int)) (! (=> (and (<= 0 i) (< i (sq_len_$S s))) (= (sq_at_$S (sq_snoc_$S s e) i) (sq_at_$S s i))) :pattern ((sq_at_$S (sq_snoc_$S s e) i)))))
(assert (forall ((s $S) (e $E) (i Int)) (! (=> (and (<= 0 i) (< i (sq_len_$S s))) (= (sq_at_$S (sq_snoc_$S s e) i) (sq_at_$S s i))) :pattern ((sq_at_$S s i) (sq_snoc_$S s e)))))
(assert (forall ((s $S) (t $S)) (! (= (sq_len_$S (sq_concat_$S s t)) (+ (sq_len_$S s) (sq_len_$S t))) :pattern ((sq_concat_$S s t)))))
(assert (forall ((s $S) (t $S) (i Int)) (! (= (sq_at_$S (sq_concat_$S s t) i) (ite (< i (sq_len_$S s)) (sq_at_$S s i) (sq_at_$S t (- i (sq_len_$S s))))) :pattern ((sq_at_$S (sq_concat_$S s t) i)))))
(assert (forall ((s $S)) (! (= (sq_concat_$S s sq_empty_$S) s) :pattern ((sq_concat_$S s sq_empty_$S)))))
(assert (forall ((s $S)) (! (= (sq_concat_$S sq_empty_$S s) s) :pattern ((sq_concat_$S sq_empty_$S s)))))
(assert (forall ((s $S) (t $S) (e $E)) (! (= (sq_concat_$S s (sq_snoc_$S t e)) (sq_snoc_$S (sq_concat_$S s t) e)) :pattern ((sq_concat_$S s (sq_snoc_$S t e))))))
(assert (forall ((s $S) (i Int) (e $E)) (! (= (sq_len_$S (sq_update_$S s i e)) (sq_len_$S s)) :pattern ((sq_update_$S s i e)))))
(assert (forall ((s $S) (i Int) (e $E) (j Int)) (! (= (sq_at_$S (sq_update_$S s i e) j) (ite (and (= i j) (<= 0 i) (< i (sq_len_$S s))) e (sq_at_$S s j))) :pattern ((sq_at_$S (sq_update_$S s i e) j)))))
(assert (forall ((s $S) (lo Int) (hi Int)) (! (=> (and (<= 0 lo) (<= lo hi) (<= hi (sq_len_$S s))) (= (sq_len_$S (sq_sub_$S s lo hi)) (- hi lo))) :pattern ((sq_sub_$S s lo hi)))))
(assert (forall ((s $S) (lo Int) (hi Int) (i Int)) (! (=> (and (<= 0 lo) (<= lo hi) (<= hi (sq_len_$S s)) (<= 0 i) (< i (- hi lo))) (= (sq_at_$S (sq_sub_$S s lo hi) i) (sq_at_$S s (+ lo i)))) :pattern ((sq_at_$S (sq_sub_$S s lo hi) i)))))
(assert (forall ((s $S) (hi Int)) (! (=> (= hi (sq_len_$S s)) (= (sq_sub_$S s 0 hi) s)) :pattern ((sq_sub_$S s 0 hi)))))
(assert (forall ((s $S) (lo Int)) (! (= (sq_sub_$S s lo lo) sq_empty_$S) :pattern ((sq_sub_$S s lo lo)))))
(assert (forall ((s $S) (lo Int) (i Int) (j Int)) (! (=> (and (<= 0 lo) (<= lo i) (< i (sq_len_$S s)) (= j (+ i 1))) (= (sq_sub_$S s lo j) (sq_snoc_$S (sq_sub_$S s lo i) (sq_at_$S s i)))) :pattern ((sq_sub_$S s lo j) (sq_sub_$S s lo i)))))
(assert (forall ((s $S) (lo Int) (hi Int) (j Int)) (! (=> (and (<= 0 lo) (< lo hi) (<= hi (sq_len_$S s)) (= j (+ lo 1))) (= (sq_sub_$S s lo hi) (sq_concat_$S (sq_snoc_$S sq_empty_$S (sq_at_$S s lo)) (sq_sub_$S s j hi)))) :pattern ((sq_sub_$S s lo hi) (sq_sub_$S s j hi)))))
(assert (forall ((s $S) (i Int) (j Int)) (! (=> (and (<= 0 i) (< i (sq_len_$S s)) (= j (+ i 1))) (= (sq_sub_$S s i j) (sq_snoc_$S sq_empty_$S (sq_at_$S s i)))) :pattern ((sq_sub_$S s i j)))))
(assert (forall ((s $S) (i Int) (e $E) (lo Int) (hi Int)) (! (=> (or (< i lo) (>= i hi)) (= (sq_sub_$S (sq_update_$S s i e) lo hi) (sq_sub_$S s lo hi))) :pattern ((sq_sub_$S (sq_update_$S s i e) lo hi)))))
(assert (forall ((s $S) (i Int) (e $E) (lo Int) (hi Int)) (! (=> (and (<= lo i) (< i hi)) (= (sq_sub_$S (sq_update_$S s i e) lo hi) (sq_update_$S (sq_sub_$S s lo hi) (- i lo) e))) :pattern ((sq_sub_$S (sq_update_$S s i e) lo hi)))))
(assert (forall ((s $S)) (! (= (sq_len_$S (sq_rev_$S s)) (sq_len_$S s)) :pattern ((sq_rev_$S s)))))
(assert (forall ((s $S) (i Int)) (! (=> (and (<= 0 i) (< i (sq_len_$S s))) (= (sq_at_$S (sq_rev_$S s) i) (sq_at_$S s (- (- (sq_len_$S s) 1) i)))) :pattern ((sq_at_$S (sq_rev_$S s) i)))))
(assert (forall ((n Int)) (! (=> (>= n 0) (= (sq_len_$S (sq_zeros_$S n)) n)) :pattern ((sq_zeros_$S n)))))
(assert (forall ((n Int) (i Int)) (! (= (sq_at_$S (sq_zeros_$S n) i) $Z) :pattern ((sq_at_$S (sq_zeros_$S n) i)))))
(declare-fun sq_eqwit_$S ($S $S) Int)
(assert (forall ((s $S) (t $S)) (! (=> (and (= (sq_len_$S s) (sq_len_$S t)) (=> (and (<= 0 (sq_eqwit_$S s t)) (< (sq_eqwit_$S s t) (sq_len_$S s))) (= (sq_at_$S s (sq_eqwit_$S s t)) (sq_at_$S t (sq_eqwit_$S s t))))) (= s t)) :pattern ((sq_eqwit_$S s t)))))
`)
}

// library struct types whose fields the contracts need to read
var transparentExternal = map[string]bool{
	"net/http.Request": true,
}

// sameUpToTypeParams: two instantiations of one generic type whose type arguments are type parameters of the same name
// (batcherJob[T] inside a method of Batcher[T] and inside a generic helper func f[T]): one sort. A type parameter stands
// for an unknown type in both places; keeping them apart would make a generic helper called from a generic method
// write to a different heap component than its caller reads.
func sameUpToTypeParams(a, b types.Type) bool {
	na, ok1 := a.(*types.Named)
	nb, ok2 := b.(*types.Named)
	if !ok1 || !ok2 || na.Origin() != nb.Origin() {
		return false
	}
	ta, tb := na.TypeArgs(), nb.TypeArgs()
	if ta.Len() != tb.Len() || ta.Len() == 0 {
		return false
	}
	for i := 0; i < ta.Len(); i++ {
		pa, isA := ta.At(i).(*types.TypeParam)
		pb, isB := tb.At(i).(*types.TypeParam)
		if isA && isB {
			if pa.Obj().Name() != pb.Obj().Name() {
				return false
			}
			continue
		}
		if !types.Identical(ta.At(i), tb.At(i)) && !sameUpToTypeParams(ta.At(i), tb.At(i)) {
			return false
		}
	}
	return true
}
