package main

// Symbolic state: cells (locals), component heap, ghost state, path condition.

import (
	"fmt"
	"go/types"
	"sort"
	"strings"

	"golang.org/x/tools/go/ssa"
)

type Cell struct {
	id     int
	frame  int
	name   string
	typ    types.Type
	sort   string
	alloc  *ssa.Alloc
	boxed  bool
	boxRef Term
}

const (
	VNone = iota
	VTerm
	VPtr
	VClosure
	VTuple
)

type Val struct {
	K    int
	T    Term
	P    *Ptr
	Fn   *ssa.Function
	Bind []Val
	Tup  []Val
	Prov *Ptr // where this (slice) value was loaded from
	Back *Backing // slice values: which backing array the slice points into (nil: unknown), see backing.go
}

func tv(t Term) Val { return Val{K: VTerm, T: t} }

const (
	PCell = iota
	PRef  // pointer to a struct object: component heap
	PBox  // pointer to a non-struct object: HP_<sort>
	PSeq  // pointer into the elements of a slice value
	PGlobal
)

type Step struct {
	IsField    bool
	Field      int
	FieldName  string
	StructSort string
	Idx        Term
	SeqSort    string
}

type Ptr struct {
	Kind    int
	Cell    *Cell
	Ref     Term
	SSort   string // PRef: struct sort of the object
	BSort   string // PBox: content sort
	Seq     Term   // PSeq
	SeqProv *Ptr
	Global  *ssa.Global
	Path    []Step
	Typ     types.Type // pointee type
}

func (p *Ptr) extend(s Step, t types.Type) *Ptr {
	q := *p
	q.Path = append(append([]Step{}, p.Path...), s)
	q.Typ = t
	return &q
}

type deferRec struct {
	fn   Val
	args []Val
	site *ssa.Defer
}

type State struct {
	cells       map[*Cell]Val
	order       []*Cell
	heap        map[string]Term
	ghost       map[string]Term
	pc          []string
	pcSet       map[string]bool
	eqConst     map[string]string
	defers      map[int][]deferRec // by frame id
	trace       []string
	loopIn      map[loopKey]*loopEntry
	shared      map[*Cell]bool
	held        []string // mutexes currently held (textual id of the lock term)
	allocTop    Term
	epoch       int
	colFrame    int
	colBody     map[*ssa.BasicBlock]bool
	dead        bool
	writes      *WriteSet
	chanInfo    map[string]*chanInfo
	named       []namedRef
	prefixEpoch map[string]int  // heap-name prefix -> counter value of the last call that may have written all such components
	boxedHere   map[*Cell]bool  // cells whose content has been moved to the box heap on this path
	scopeNeeds  []scopeNeed     // row sources introduced on this path that still need an owner predicate (scope.go)
	ctes        map[string]bool // names defined by With(name, ...) on this path
	monInst     []monInst           // monitors with interference whose mutex this path has locked at least once
	backOf      map[string]storedBacking // backing of the slice last stored in a heap field on this path (copy on write)
	escaped     map[string]bool     // fresh backing arrays handed to a call (copy on write)
	roRouters   map[string]bool // chi routers on which api.ReadOnly is installed (copy on write, see markRO)
}

type namedRef struct {
	name  string
	frame int
	ref   Term
	typ   types.Type // pointer type
}

type loopKey struct {
	frame int
	block *ssa.BasicBlock
}

type loopEntry struct {
	pre     *State // state snapshot at loop entry (after havoc + assume) for decreases
	decPrev Term
	hasDec  bool
	framed  []string
}

type chanInfo struct{}

type WriteSet struct {
	prefixes []string // heap-name prefixes (modifies pkg:<name>)
	cells    map[*Cell]bool
	heaps    map[string]bool
	ghost    map[string]bool
	all      bool
}

func newWriteSet() *WriteSet {
	return &WriteSet{cells: map[*Cell]bool{}, heaps: map[string]bool{}, ghost: map[string]bool{}}
}

func (w *WriteSet) subsetOf(o *WriteSet) bool {
	if w.all && !o.all {
		return false
	}
	for c := range w.cells {
		if !o.cells[c] {
			return false
		}
	}
	for h := range w.heaps {
		if !o.heaps[h] {
			return false
		}
	}
	for g := range w.ghost {
		if !o.ghost[g] {
			return false
		}
	}
	return true
}

func (w *WriteSet) add(o *WriteSet) {
	w.all = w.all || o.all
	for c := range o.cells {
		w.cells[c] = true
	}
	for h := range o.heaps {
		w.heaps[h] = true
	}
	for g := range o.ghost {
		w.ghost[g] = true
	}
}

func NewState() *State {
	return &State{cells: map[*Cell]Val{}, heap: map[string]Term{}, ghost: map[string]Term{}, defers: map[int][]deferRec{},
		loopIn: map[loopKey]*loopEntry{}, shared: map[*Cell]bool{}}
}

func (s *State) clone() *State {
	n := &State{
		cells: make(map[*Cell]Val, len(s.cells)), heap: make(map[string]Term, len(s.heap)), ghost: make(map[string]Term, len(s.ghost)),
		defers: make(map[int][]deferRec, len(s.defers)), loopIn: make(map[loopKey]*loopEntry, len(s.loopIn)),
		shared: make(map[*Cell]bool, len(s.shared)), allocTop: s.allocTop, writes: s.writes, epoch: s.epoch, colFrame: s.colFrame, colBody: s.colBody,
	}
	for k, v := range s.cells {
		n.cells[k] = v
	}
	n.order = append([]*Cell{}, s.order...)
	for k, v := range s.heap {
		n.heap[k] = v
	}
	for k, v := range s.ghost {
		n.ghost[k] = v
	}
	n.pc = append([]string{}, s.pc...)
	n.eqConst = make(map[string]string, len(s.eqConst))
	for k, v := range s.eqConst {
		n.eqConst[k] = v
	}
	n.pcSet = make(map[string]bool, len(s.pcSet))
	for k := range s.pcSet {
		n.pcSet[k] = true
	}
	for k, v := range s.defers {
		n.defers[k] = append([]deferRec{}, v...)
	}
	n.trace = append([]string{}, s.trace...)
	for k, v := range s.loopIn {
		n.loopIn[k] = v
	}
	for k, v := range s.shared {
		n.shared[k] = v
	}
	n.held = append([]string{}, s.held...)
	n.named = append([]namedRef{}, s.named...)
	n.scopeNeeds = append([]scopeNeed{}, s.scopeNeeds...)
	if s.prefixEpoch != nil {
		n.prefixEpoch = make(map[string]int, len(s.prefixEpoch))
		for k, v := range s.prefixEpoch {
			n.prefixEpoch[k] = v
		}
	}
	if s.boxedHere != nil {
		n.boxedHere = make(map[*Cell]bool, len(s.boxedHere))
		for k := range s.boxedHere {
			n.boxedHere[k] = true
		}
	}
	n.roRouters = s.roRouters
	n.monInst = append([]monInst{}, s.monInst...)
	n.backOf = s.backOf
	n.escaped = s.escaped
	if s.ctes != nil {
		n.ctes = map[string]bool{}
		for k := range s.ctes {
			n.ctes[k] = true
		}
	}
	return n
}

func (s *State) assume(f string) {
	if f == "true" {
		return
	}
	if strings.HasPrefix(f, "(and ") {
		if parts := splitSexp(f[5 : len(f)-1]); len(parts) > 1 {
			for _, p := range parts {
				s.assume(p)
			}
			return
		}
	}
	if s.pcSet == nil {
		s.pcSet = map[string]bool{}
	}
	if s.pcSet[f] {
		return
	}
	s.pcSet[f] = true
	s.pc = append(s.pc, f)
	if t, c, ok := eqNumeral(f); ok {
		if s.eqConst == nil {
			s.eqConst = map[string]string{}
		}
		s.eqConst[t] = c
	}
	if t, c, ok := isTester(f); ok {
		if s.eqConst == nil {
			s.eqConst = map[string]string{}
		}
		s.eqConst["dyn:"+t] = c
	}
}

// isTester recognises ((_ is C) T).
func isTester(f string) (string, string, bool) {
	if !strings.HasPrefix(f, "((_ is ") || !strings.HasSuffix(f, ")") {
		return "", "", false
	}
	i := strings.Index(f, ") ")
	if i < 0 {
		return "", "", false
	}
	return f[i+2 : len(f)-1], f[7:i], true
}

// eqNumeral recognises (= T c) / (= c T) with c a numeral or a string literal constant.
func eqNumeral(f string) (string, string, bool) {
	if !strings.HasPrefix(f, "(= ") || !strings.HasSuffix(f, ")") {
		return "", "", false
	}
	parts := splitSexp(f[3 : len(f)-1])
	if len(parts) != 2 {
		return "", "", false
	}
	isC := func(x string) bool {
		if _, ok := parseSmallInt(x); ok {
			return true
		}
		return strings.HasPrefix(x, "str_lit_") || x == "str_empty"
	}
	switch {
	case isC(parts[1]) && !isC(parts[0]):
		return parts[0], parts[1], true
	case isC(parts[0]) && !isC(parts[1]):
		return parts[1], parts[0], true
	}
	return "", "", false
}

// known reports whether f is syntactically implied (1) or refuted (-1) by
// the path condition.
func (s *State) known(f string) int {
	if s.pcSet[f] {
		return 1
	}
	if s.pcSet[not(f)] {
		return -1
	}
	if t, c, ok := eqNumeral(f); ok {
		if c2, ok := s.eqConst[t]; ok {
			if c2 == c {
				return 1
			}
			return -1
		}
	}
	if t, c, ok := isTester(f); ok {
		if c2, ok := s.eqConst["dyn:"+t]; ok {
			if c2 == c {
				return 1
			}
			return -1
		}
	}
	return 0
}

// splitSexp splits a sequence of s-expressions at the top level.
func splitSexp(s string) []string {
	var out []string
	d := 0
	start := -1
	for i := 0; i < len(s); i++ {
		c := s[i]
		switch {
		case c == '(':
			if d == 0 && start < 0 {
				start = i
			}
			d++
		case c == ')':
			d--
			if d == 0 && start >= 0 {
				out = append(out, s[start:i+1])
				start = -1
			}
		case c == ' ' || c == '\n':
			if d == 0 && start >= 0 {
				out = append(out, s[start:i])
				start = -1
			}
		default:
			if d == 0 && start < 0 {
				start = i
			}
		}
	}
	if start >= 0 {
		out = append(out, s[start:])
	}
	return out
}

func (s *State) note(format string, a ...any) {
	s.trace = append(s.trace, fmt.Sprintf(format, a...))
}

// cellByName returns the most recently allocated cell with that source name.
func (s *State) cellByName(name string, frame int) *Cell {
	for i := len(s.order) - 1; i >= 0; i-- {
		if s.order[i].name == name && (frame == 0 || s.order[i].frame == frame) {
			return s.order[i]
		}
	}
	return nil
}

// ---- small SMT helpers

func app(f string, args ...string) string {
	if len(args) == 0 {
		return f
	}
	return "(" + f + " " + strings.Join(args, " ") + ")"
}

func and(fs ...string) string {
	var out []string
	for _, f := range fs {
		if f == "true" || f == "" {
			continue
		}
		if f == "false" {
			return "false"
		}
		out = append(out, f)
	}
	switch len(out) {
	case 0:
		return "true"
	case 1:
		return out[0]
	}
	return "(and " + strings.Join(out, " ") + ")"
}

func or(fs ...string) string {
	var out []string
	for _, f := range fs {
		if f == "false" || f == "" {
			continue
		}
		if f == "true" {
			return "true"
		}
		out = append(out, f)
	}
	switch len(out) {
	case 0:
		return "false"
	case 1:
		return out[0]
	}
	return "(or " + strings.Join(out, " ") + ")"
}

func not(f string) string {
	if f == "true" {
		return "false"
	}
	if f == "false" {
		return "true"
	}
	if strings.HasPrefix(f, "(not ") && strings.HasSuffix(f, ")") {
		inner := f[5 : len(f)-1]
		if balanced(inner) {
			return inner
		}
	}
	return "(not " + f + ")"
}

func balanced(s string) bool {
	d := 0
	for i, c := range s {
		if c == '(' {
			d++
		}
		if c == ')' {
			d--
			if d < 0 {
				return false
			}
			if d == 0 && i != len(s)-1 {
				return false
			}
		}
		if d == 0 && c == ' ' {
			return false
		}
	}
	return d == 0
}

func implies(a, b string) string {
	if a == "true" {
		return b
	}
	if a == "false" {
		return "true"
	}
	if b == "true" {
		return "true"
	}
	return "(=> " + a + " " + b + ")"
}

func ite(c, a, b string) string { return "(ite " + c + " " + a + " " + b + ")" }

func intLit(n int64) string {
	if n < 0 {
		return fmt.Sprintf("(- %d)", -n)
	}
	return fmt.Sprint(n)
}

func sortedKeys[V any](m map[string]V) []string {
	var ks []string
	for k := range m {
		ks = append(ks, k)
	}
	sort.Strings(ks)
	return ks
}
