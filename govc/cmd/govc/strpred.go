package main

// String predicates, type invariants, named-function-type specs, global
// invariants and closure captures (used by the SQL-text contracts of C20/C04).
//
//   strpred P          P : string -> bool is closed under the operations that
//                      build a string out of program text: every string literal
//                      satisfies P; a + b, s[i:j], fmt.Sprintf(constant format,
//                      args) and fmt.Sprint(arg) satisfy P when their string
//                      operands do (integer operands add digits only). Other
//                      library functions get their closure rule from explicit
//                      `assume` lines over lib("pkg.Func", ...).
//   typeinv pkg.T: e   e(self) holds for every value of the struct type T:
//                      assumed for parameters, receivers and call results of
//                      type T, checked wherever a T value leaves a function
//                      (return, conversion to an interface, call argument,
//                      store, send) in every function that builds one.
//   typespec pkg.F S   every value of the named function type F implements the
//                      closure spec S: checked at every conversion to F in the
//                      loaded program, used at calls through a value of type F.
//   globalinv pkg.V: e e(self) holds for the package-level variable V: checked
//                      on the package initialiser, assumed at every load; the
//                      program is scanned for other writers.
//   captures e         (closure contracts) e over captured variables: checked
//                      where the closure is created, assumed in its body; the
//                      captured variables it names must not be assigned after
//                      the closure has been created.

import (
	"fmt"
	"go/types"
	"strings"

	"golang.org/x/tools/go/ssa"
)

// strPredAxioms: the closure axioms of every declared string predicate that is in use.
func (vc *VC) strPredAxioms() string {
	var b strings.Builder
	for _, p := range vc.prog.contracts.StrPreds {
		fn := "uf_" + p
		if !vc.declSet[fn] {
			continue
		}
		fmt.Fprintf(&b, "; string predicate %s: closure axioms\n", p)
		fmt.Fprintf(&b, "(assert (%s str_empty))\n", fn)
		for i := range vc.strOrder {
			fmt.Fprintf(&b, "(assert (%s str_lit_%d))\n", fn, i+1)
		}
		fmt.Fprintf(&b, "(assert (forall ((a Str) (b Str)) (! (=> (and (%s a) (%s b)) (%s (str_cat a b))) :pattern ((str_cat a b)))))\n", fn, fn, fn)
		if vc.declSet["str_sub"] {
			fmt.Fprintf(&b, "(assert (forall ((a Str) (i Int) (j Int)) (! (=> (%s a) (%s (str_sub a i j))) :pattern ((str_sub a i j)))))\n", fn, fn)
		}
		// an argument of a formatting verb: a string satisfying P, or an integer
		okArg := func(a string) string {
			var alts []string
			for _, key := range vc.sorts.anyOrder {
				c := vc.sorts.anyCtors[key]
				if hasTextMethod(c.typ) {
					continue
				}
				switch u := c.typ.Underlying().(type) {
				case *types.Basic:
					if u.Info()&types.IsInteger != 0 {
						alts = append(alts, fmt.Sprintf("((_ is %s) %s)", c.name, a))
					} else if u.Kind() == types.String && c.sort == SStr {
						alts = append(alts, fmt.Sprintf("(and ((_ is %s) %s) (%s (%s %s)))", c.name, a, fn, c.sel, a))
					}
				}
			}
			if len(alts) == 0 {
				return "false"
			}
			return "(or " + strings.Join(alts, " ") + " false)"
		}
		for _, name := range sortedKeys(vc.sprintfFormats) {
			n := strings.Count(vc.decl(name), "Any")
			_ = n
			format := vc.sprintfFormats[name]
			verbs, ok := formatVerbs(format)
			var arity int
			fmt.Sscanf(name[strings.LastIndex(name, "_")+1:], "%d", &arity)
			if !ok || len(verbs) != arity || arity == 0 {
				continue // unusual format: no closure rule (the result is unconstrained)
			}
			var vars, decls, conds []string
			for i := 0; i < arity; i++ {
				v := fmt.Sprintf("a%d", i)
				vars = append(vars, v)
				decls = append(decls, fmt.Sprintf("(%s Any)", v))
				conds = append(conds, okArg(v))
			}
			call := app(name, vars...)
			fmt.Fprintf(&b, "(assert (forall (%s) (! (=> %s (%s %s)) :pattern (%s)))) ; %q\n", strings.Join(decls, " "), and(conds...), fn, call, call, format)
		}
		if vc.declSet["sprint1"] {
			fmt.Fprintf(&b, "(assert (forall ((a0 Any)) (! (=> %s (%s (sprint1 a0))) :pattern ((sprint1 a0)))))\n", okArg("a0"), fn)
		}
	}
	return b.String()
}

func (vc *VC) decl(name string) string {
	for _, d := range vc.decls {
		if strings.HasPrefix(d, "(declare-fun "+name+" ") {
			return d
		}
	}
	return ""
}

// hasTextMethod: fmt would call a method of the value instead of printing it.
func hasTextMethod(t types.Type) bool {
	for _, tt := range []types.Type{t, types.NewPointer(t)} {
		ms := types.NewMethodSet(tt)
		for i := 0; i < ms.Len(); i++ {
			switch ms.At(i).Obj().Name() {
			case "String", "Error", "Format", "GoString":
				return true
			}
		}
	}
	return false
}

// formatVerbs: the verbs of a format string, in order; ok=false for formats this model does not cover
// (explicit argument indexes, '*' widths).
func formatVerbs(format string) ([]byte, bool) {
	var out []byte
	for i := 0; i < len(format); i++ {
		if format[i] != '%' {
			continue
		}
		i++
		for i < len(format) && strings.IndexByte("+-# 0123456789.", format[i]) >= 0 {
			i++
		}
		if i >= len(format) {
			return nil, false
		}
		switch format[i] {
		case '%':
		case 's', 'v', 'd', 'q':
			out = append(out, format[i])
		default:
			return nil, false
		}
	}
	return out, true
}

// ---- declarations lookup -------------------------------------------------------

func typeKey(t types.Type) string {
	t = types.Unalias(t)
	if nt, ok := t.(*types.Named); ok && nt.Obj().Pkg() != nil {
		return nt.Obj().Pkg().Name() + "." + nt.Obj().Name()
	}
	return ""
}

func (p *Program) typeDecl(kind string, t types.Type) *TypeDecl {
	k := typeKey(t)
	if k == "" {
		return nil
	}
	for _, d := range p.contracts.TypeDecls {
		if d.Kind == kind && d.Name == k {
			return d
		}
	}
	return nil
}

func (p *Program) globalInv(g *ssa.Global) *TypeDecl {
	if g.Pkg == nil {
		return nil
	}
	k := g.Pkg.Pkg.Name() + "." + g.Name()
	for _, d := range p.contracts.TypeDecls {
		if d.Kind == "globalinv" && d.Name == k {
			return d
		}
	}
	return nil
}

// invFormula: the invariant of d for the value v.
func (ex *Exec) invFormula(st *State, d *TypeDecl, v Term, ty types.Type, goal bool) (string, bool) {
	env := ex.newEnv(st, nil, d.pkg, ex.vc.curFrame)
	env.binds["self"] = TVal{T: v, Ty: ty}
	env.goal = goal
	f := env.Bool(d.Inv.Expr)
	if len(env.errs) > 0 {
		ex.vc.fatalf("%s %s: %s", d.Kind, d.Name, strings.Join(env.errs, "; "))
		return "true", true
	}
	return f, env.ground
}

// assumeTypeInv: a value of a type with a declared invariant enters the function.
func (ex *Exec) assumeTypeInv(st *State, v Val, ty types.Type) {
	if ty == nil || v.K != VTerm {
		return
	}
	d := ex.vc.prog.typeDecl("typeinv", ty)
	if d == nil {
		return
	}
	ex.vc.usedCon["typeinv "+d.Name] = true
	f, _ := ex.invFormula(st, d, v.T, ty, false)
	st.assume(f)
}

// checkTypeInv: a value of a type with a declared invariant leaves the function.
func (ex *Exec) checkTypeInv(fr *Frame, st *State, v Val, ty types.Type, how string) {
	if ty == nil {
		return
	}
	d := ex.vc.prog.typeDecl("typeinv", ty)
	if d == nil {
		return
	}
	t := ex.toTerm(st, v, ty)
	f, ground := ex.invFormula(st, d, t, ty, true)
	ex.vc.curProps = d.Props
	ex.obligationFull(fr, st, "typeinv", fmt.Sprintf("invariant of %s (%s): %s", d.Name, how, d.Inv.Text), f, false, fmt.Sprintf("%s@%d", sanitize(d.Name), ex.siteOrdinal(ex.cur)), ground)
	ex.vc.curProps = nil
}

// buildsType: fn creates values of the struct type named key (local of that type or store into its fields).
func buildsType(fn *ssa.Function, key string) bool {
	for _, b := range fn.Blocks {
		for _, ins := range b.Instrs {
			switch x := ins.(type) {
			case *ssa.Alloc:
				if typeKey(x.Type().(*types.Pointer).Elem()) == key {
					return true
				}
			case *ssa.FieldAddr:
				if typeKey(x.X.Type().Underlying().(*types.Pointer).Elem()) == key {
					return true
				}
			}
		}
	}
	return false
}

// ---- closure captures ----------------------------------------------------------

// captureStable: the captured local behind binding b of mc is not assigned once mc exists.
func captureStable(mc *ssa.MakeClosure, b ssa.Value) (bool, string) {
	a, ok := b.(*ssa.Alloc)
	if !ok {
		return true, "" // captured by value (a parameter or an SSA value)
	}
	parent := mc.Parent()
	// blocks reachable after mc
	after := map[*ssa.BasicBlock]bool{}
	var walk func(bb *ssa.BasicBlock)
	walk = func(bb *ssa.BasicBlock) {
		if after[bb] {
			return
		}
		after[bb] = true
		for _, s := range bb.Succs {
			walk(s)
		}
	}
	for _, s := range mc.Block().Succs {
		walk(s)
	}
	pos := func(ins ssa.Instruction) int {
		for i, x := range ins.Block().Instrs {
			if x == ins {
				return i
			}
		}
		return -1
	}
	mcPos := pos(mc)
	for _, ref := range *a.Referrers() {
		switch r := ref.(type) {
		case *ssa.Store:
			if r.Addr != ssa.Value(a) {
				return false, "its address is stored"
			}
			if after[r.Block()] || (r.Block() == mc.Block() && pos(r) > mcPos) {
				return false, fmt.Sprintf("it is assigned after the closure is created (%s)", parent.Prog.Fset.Position(r.Pos()))
			}
		case *ssa.UnOp, *ssa.DebugRef:
		case *ssa.MakeClosure:
			fn := r.Fn.(*ssa.Function)
			for i, bb := range r.Bindings {
				if bb == ssa.Value(a) && i < len(fn.FreeVars) {
					if w, why := freeVarWritten(fn, fn.FreeVars[i], 0); w {
						return false, why
					}
				}
			}
		default:
			return false, fmt.Sprintf("its address escapes (%T)", ref)
		}
	}
	return true, ""
}

func freeVarWritten(fn *ssa.Function, fv *ssa.FreeVar, depth int) (bool, string) {
	if depth > 6 {
		return true, "closure nesting too deep"
	}
	for _, ref := range *fv.Referrers() {
		switch r := ref.(type) {
		case *ssa.Store:
			return true, fmt.Sprintf("closure %s assigns it", fn.Name())
		case *ssa.UnOp, *ssa.DebugRef:
		case *ssa.MakeClosure:
			inner := r.Fn.(*ssa.Function)
			for i, bb := range r.Bindings {
				if bb == ssa.Value(fv) && i < len(inner.FreeVars) {
					if w, why := freeVarWritten(inner, inner.FreeVars[i], depth+1); w {
						return true, why
					}
				}
			}
		default:
			return true, fmt.Sprintf("closure %s lets its address escape (%T)", fn.Name(), ref)
		}
	}
	return false, ""
}

// captureNames: identifiers used in the captures clauses of c.
func captureNames(c *FuncContract) map[string]bool {
	out := map[string]bool{}
	if c == nil {
		return out
	}
	for _, cl := range c.Captures {
		collectIdents(cl.Expr, out)
	}
	return out
}

// checkCaptures: obligations at the creation of a closure whose contract has captures clauses.
func (ex *Exec) checkCaptures(fr *Frame, st *State, mc *ssa.MakeClosure, binds []Val) {
	vc := ex.vc
	fn := mc.Fn.(*ssa.Function)
	c := vc.prog.contracts.Funcs[vc.prog.funcName(fn)]
	if c == nil || len(c.Captures) == 0 {
		return
	}
	vc.usedCon[c.Name] = true
	names := captureNames(c)
	env := ex.newEnv(st, nil, fnPkg(fn), fr)
	for i, fv := range fn.FreeVars {
		if i >= len(binds) || !names[fv.Name()] {
			continue
		}
		et := fv.Type().(*types.Pointer).Elem()
		if binds[i].K == VPtr {
			v := ex.load(st, binds[i].P)
			env.binds[fv.Name()] = TVal{T: ex.toTerm(st, v, et), Ty: et}
		} else {
			vc.fatalf("captures of %s: captured variable %s has no location at %s", c.Name, fv.Name(), ex.where())
			return
		}
		if ok, why := captureStable(mc, mc.Bindings[i]); !ok {
			vc.curProps = c.Props
			ex.obligationFull(fr, st, "captures", fmt.Sprintf("captured variable %s of %s must not change after the closure is created: %s", fv.Name(), shortName(c.Name), why), "false", false, fmt.Sprintf("%s.stable.%s", shortName(c.Name), fv.Name()), true)
			vc.curProps = nil
		}
	}
	for _, cl := range c.Captures {
		env.errs = nil
		env.goal = true
		env.ground = true
		g := env.Bool(cl.Expr)
		if len(env.errs) > 0 {
			vc.fatalf("captures clause %q of %s: %s", cl.Text, c.Name, strings.Join(env.errs, "; "))
			return
		}
		vc.curProps = cl.Props
		if len(vc.curProps) == 0 {
			vc.curProps = c.Props
		}
		ex.obligationFull(fr, st, "captures", fmt.Sprintf("%s captures %s", shortName(c.Name), cl.Text), g, false, fmt.Sprintf("%s.%d", shortName(c.Name), cl.Ordinal), env.ground)
		vc.curProps = nil
	}
}

func collectIdents(e Expr, out map[string]bool) {
	switch n := e.(type) {
	case EIdent:
		out[n.Name] = true
	case EUnary:
		collectIdents(n.X, out)
	case EBinary:
		collectIdents(n.X, out)
		collectIdents(n.Y, out)
	case EField:
		collectIdents(n.X, out)
	case EIndex:
		collectIdents(n.X, out)
		collectIdents(n.I, out)
	case ESlice:
		collectIdents(n.X, out)
		if n.Lo != nil {
			collectIdents(n.Lo, out)
		}
		if n.Hi != nil {
			collectIdents(n.Hi, out)
		}
	case ECall:
		for _, a := range n.Args {
			collectIdents(a, out)
		}
	case EQuant:
		if n.Lo != nil {
			collectIdents(n.Lo, out)
		}
		if n.Hi != nil {
			collectIdents(n.Hi, out)
		}
		collectIdents(n.Body, out)
	}
}

// ---- sinks ---------------------------------------------------------------------

func (p *Program) sinkFor(callee *ssa.Function) *SinkDecl {
	if len(p.contracts.Sinks) == 0 || callee.Signature.Recv() == nil {
		return nil
	}
	rt := types.TypeString(callee.Signature.Recv().Type(), nil)
	for _, sd := range p.contracts.Sinks {
		if sd.Recv == rt {
			return sd
		}
	}
	return nil
}

// sinkCall: a method of a sink type without a contract of its own. String parameters must satisfy the
// predicate; a result of the receiver's type is the receiver (builder style); string results satisfy
// the predicate; nothing the contracts can see is modified.
func (ex *Exec) sinkCall(fr *Frame, sd *SinkDecl, name string, callee *ssa.Function, args []Val, st *State, k CallCont) {
	vc := ex.vc
	sig := callee.Signature
	pred := "uf_" + sd.Pred
	vc.declareFun(pred, []string{SStr}, SBool)
	vc.usedExt[fmt.Sprintf("sink type %s: methods change nothing the contracts mention, return their receiver when the result has its type, and return only %s text; their string parameters are checked for %s", sd.Recv, sd.Pred, sd.Pred)] = true
	meth := callee.Name()
	loose := ""
	if sd.Rendered != "" {
		loose = "uf_" + sd.Rendered
		vc.declareFun(loose, []string{SStr}, SBool)
	}
	// bound arguments present (or not provably absent): the text is interpolated again, so it must be a template
	hasArgs := false
	if sig.Variadic() && len(args) == sig.Params().Len()+1 {
		last := ex.toTerm(st, args[len(args)-1], sig.Params().At(sig.Params().Len()-1).Type())
		if lit, ok := vc.seqLits[last.S]; ok {
			hasArgs = len(lit) > 0
		} else {
			hasArgs = last.S != "sq_empty_"+last.Sort
		}
	}
	strict := pred
	if loose != "" && !hasArgs {
		pred = loose
	}
	for i := 0; i < sig.Params().Len() && i+1 < len(args); i++ {
		pt := sig.Params().At(i).Type()
		a := args[i+1]
		var goal string
		ground := true
		switch u := pt.Underlying().(type) {
		case *types.Basic:
			if u.Kind() != types.String {
				continue
			}
			goal = app(pred, ex.toTerm(st, a, pt).S)
		case *types.Slice:
			if b, ok := u.Elem().Underlying().(*types.Basic); !ok || b.Kind() != types.String {
				continue
			}
			t := ex.toTerm(st, a, pt)
			if lit, ok := vc.seqLits[t.S]; ok {
				var cs []string
				for _, e := range lit {
					cs = append(cs, app(pred, e.S))
				}
				goal = and(cs...)
			} else if t.S == "sq_empty_"+t.Sort {
				continue
			} else {
				goal = fmt.Sprintf("(forall ((i!s Int)) (=> (and (<= 0 i!s) (< i!s (sq_len_%s %s))) (%s (sq_at_%s %s i!s))))", t.Sort, t.S, pred, t.Sort, t.S)
				ground = false
			}
		default:
			continue
		}
		what := sd.Pred
		if pred == loose {
			what = sd.Rendered
		} else if loose != "" {
			what += " (bound arguments accompany it: it is interpolated again, rendered text must not be part of it)"
		}
		vc.curProps = sd.Props
		ex.obligationFull(fr, st, "call-requires", fmt.Sprintf("text passed to %s.%s (parameter %s) must be %s", sd.Recv, meth, sig.Params().At(i).Name(), what), goal, false, fmt.Sprintf("sink.%s.%d@%d", meth, i, ex.siteOrdinal(ex.cur)), ground)
		vc.curProps = nil
	}
	// a bound argument of type schema.Safe (bun.Safe) is not bound at all: bun writes it into the statement verbatim.
	// It is text, and must satisfy the predicate like any text parameter.
	if sig.Variadic() && len(args) == sig.Params().Len()+1 {
		last := ex.toTerm(st, args[len(args)-1], sig.Params().At(sig.Params().Len()-1).Type())
		if lit, ok := vc.seqLits[last.S]; ok {
			for j, e := range lit {
				if e.Sort != SAny {
					continue
				}
				for _, key := range vc.sorts.anyOrder {
					c := vc.sorts.anyCtors[key]
					nt, isNamed := c.typ.(*types.Named)
					if !isNamed || nt.Obj().Pkg() == nil || !strings.HasSuffix(nt.Obj().Pkg().Path(), "uptrace/bun/schema") || nt.Obj().Name() != "Safe" || c.sort != SStr {
						continue
					}
					goal := implies(app("(_ is "+c.name+")", e.S), app(strict, app(c.sel, e.S)))
					vc.curProps = sd.Props
					ex.obligationFull(fr, st, "call-requires", fmt.Sprintf("argument %d of %s.%s: a bun.Safe value is written into the statement verbatim and must be %s", j, sd.Recv, meth, sd.Pred), goal, false, fmt.Sprintf("sink.%s.safe%d@%d", meth, j, ex.siteOrdinal(ex.cur)), true)
					vc.curProps = nil
				}
			}
		}
	}
	if sc := vc.prog.scopeFor(callee); sc != nil {
		ex.scopeCall(fr, sc, callee, args, st)
	}
	if meth == "Where" && vc.prog.curProp == "C17" && len(args) >= 2 {
		// page arithmetic (C17): the last predicate put on a builder, for the contracts of the paginators
		if _, ok := vc.prog.contracts.Ghosts["qWhere"]; ok {
			env := ex.newEnv(st, nil, nil, nil)
			if g, ok := env.ghostVal("qWhere", st); ok {
				q := ex.toTerm(st, args[0], nil)
				t := ex.toTerm(st, args[1], types.Typ[types.String])
				st.ghost["qWhere"] = Term{app("store", g.T.S, q.S, t.S), g.T.Sort}
				if st.writes != nil {
					st.writes.ghost["qWhere"] = true
				}
			}
		}
	}
	res := sig.Results()
	mk := func(i int) Val {
		rt := res.At(i).Type()
		if types.Identical(rt, sig.Recv().Type()) && len(args) > 0 && !strings.HasPrefix(meth, "New") {
			return tv(ex.toTerm(st, args[0], nil))
		}
		v := ex.freshOfType(st, rt, "res_"+meth)
		if b, ok := rt.Underlying().(*types.Basic); ok && b.Kind() == types.String && v.K == VTerm {
			if loose != "" {
				st.assume(app(loose, v.T.S))
			} else {
				st.assume(app(strict, v.T.S))
			}
		}
		if _, ok := rt.Underlying().(*types.Pointer); ok && v.K == VTerm && v.T.Sort == SRef {
			st.assume(app(">", v.T.S, "0"))
		}
		return v
	}
	switch res.Len() {
	case 0:
		k(st, Val{K: VNone}, false)
	case 1:
		k(st, mk(0), false)
	default:
		var tup []Val
		for i := 0; i < res.Len(); i++ {
			tup = append(tup, mk(i))
		}
		k(st, Val{K: VTuple, Tup: tup}, false)
	}
}
