package main

// Forward symbolic execution of go/ssa (naive form) with loop cutting.

import (
	"fmt"
	"go/constant"
	"go/token"
	"go/types"
	"os"
	"strings"

	"golang.org/x/tools/go/ssa"
)

type Obligation struct {
	Name    string
	Kind    string
	Clause  string
	Where   string
	Trace   []string
	Assumes []string
	Goal    string
	Func    string
	Ground  bool
	Props   []string // when non-empty: the obligation counts only for these properties
	Group   int      // obligations of the same group share their assumptions (same path end)
	// filled by the solver driver
	Status string
	Solver string
	Ms     int64
	Output string
	File   string
}

// VC: one verification unit (one function under contract).
type VC struct {
	prog           *Program
	sorts          *SortTable
	decls          []string
	declSet        map[string]bool
	counter        int
	strLits        map[string]string
	strOrder       []string
	funcConsts     map[string]Val
	obligations    []*Obligation
	notes          map[string]bool
	fn             *ssa.Function
	contract       *FuncContract
	paths          int
	usedCon        map[string]bool
	usedExt        map[string]bool
	collecting     int
	frameCtr       int
	cellCtr        int
	entry          *State
	fatal          []string
	coverPCs       [][]string
	seqLits        map[string][]Term
	maxPaths       int
	usedFolds      map[string]bool
	nopanicOrd     int
	extraAxioms    []string
	optintStrAxiom bool
	curFrame       *Frame
	heapSorts      map[string]string
	groupCtr       int
	funcSpecs      map[string]*FuncContract
	specChecks     []specCheck
	curProps       []string
	curChanName    string
	curChanElem    types.Type
	folds          map[string]*foldInst
	foldOrder      []string
	siteOrd        map[ssa.Instruction]int
	fmtIDs         map[string]int
	sprintfFormats map[string]string
	owned          []string // objects declared with `owns` (terms at function entry)
	newHeaps       []string // see newFieldHeaps
	recHeaps       map[string]string // heap components read while a fold body is translated
	trivial        map[string]bool   // obligations whose goal was decided during generation
}

func NewVC(p *Program, fn *ssa.Function, c *FuncContract) *VC {
	return &VC{prog: p, sorts: NewSortTable(p.repoPrefixes), declSet: map[string]bool{}, strLits: map[string]string{},
		funcConsts: map[string]Val{}, notes: map[string]bool{}, fn: fn, contract: c, usedCon: map[string]bool{}, usedExt: map[string]bool{},
		seqLits: map[string][]Term{}, maxPaths: 6000, usedFolds: map[string]bool{}, folds: map[string]*foldInst{}, siteOrd: map[ssa.Instruction]int{}}
}

func (vc *VC) declare(name, sort string) {
	if vc.declSet[name] {
		return
	}
	vc.declSet[name] = true
	vc.decls = append(vc.decls, fmt.Sprintf("(declare-const %s %s)", name, sort))
}

func (vc *VC) declareFun(name string, args []string, res string) {
	if vc.declSet[name] {
		return
	}
	vc.declSet[name] = true
	vc.decls = append(vc.decls, fmt.Sprintf("(declare-fun %s (%s) %s)", name, strings.Join(args, " "), res))
}

func (vc *VC) fresh(prefix, sort string) Term {
	vc.counter++
	name := fmt.Sprintf("%s!%d", sanitize(prefix), vc.counter)
	vc.declare(name, sort)
	return Term{name, sort}
}

func (vc *VC) note(format string, a ...any) {
	vc.notes[fmt.Sprintf(format, a...)] = true
}

func (vc *VC) fatalf(format string, a ...any) {
	msg := fmt.Sprintf(format, a...)
	for _, f := range vc.fatal {
		if f == msg {
			return
		}
	}
	vc.fatal = append(vc.fatal, msg)
}

func (vc *VC) strLit(s string) Term {
	if s == "" {
		return Term{"str_empty", SStr}
	}
	if n, ok := vc.strLits[s]; ok {
		return Term{n, SStr}
	}
	n := fmt.Sprintf("str_lit_%d", len(vc.strLits)+1)
	vc.strLits[s] = n
	vc.strOrder = append(vc.strOrder, s)
	return Term{n, SStr}
}

func (vc *VC) heapSortOf(name string) string {
	return vc.prog.heapSort(vc, name)
}

// heap component access ----------------------------------------------------

func (vc *VC) heapGet(st *State, name, arrSort string) Term {
	if vc.heapSorts == nil {
		vc.heapSorts = map[string]string{}
	}
	vc.heapSorts[name] = arrSort
	if vc.recHeaps != nil {
		vc.recHeaps[name] = arrSort
	}
	if t, ok := st.heap[name]; ok {
		return t
	}
	init := name + "_init"
	if st.epoch > 0 {
		init = fmt.Sprintf("%s_e%d", name, st.epoch)
	}
	// a call that may write every struct of a package (modifies pkg:<name>) also forgets the components
	// of that package this path has not touched yet
	for pre, e := range st.prefixEpoch {
		if strings.HasPrefix(name, pre) && e > st.epoch {
			init = fmt.Sprintf("%s_p%d", name, e)
		}
	}
	vc.declare(init, arrSort)
	return Term{init, arrSort}
}

func (vc *VC) heapGetByName(st *State, name string) Term {
	s, ok := vc.heapSorts[name]
	if !ok {
		return Term{}
	}
	return vc.heapGet(st, name, s)
}

func (vc *VC) heapSet(st *State, name string, t Term) {
	st.heap[name] = t
	if st.writes != nil {
		st.writes.heaps[name] = true
	}
}

func (vc *VC) compHeap(structSort, field string) (string, string) {
	si := vc.sorts.StructInfo(structSort)
	for _, f := range si.fields {
		if f.name == field {
			return "H_" + structSort + "_" + field, "(Array Int " + f.sort + ")"
		}
	}
	panic("no field " + field + " in " + structSort)
}

func (vc *VC) readField(st *State, ref Term, structSort, field string) Term {
	hn, hs := vc.compHeap(structSort, field)
	h := vc.heapGet(st, hn, hs)
	si := vc.sorts.StructInfo(structSort)
	fs := ""
	for _, f := range si.fields {
		if f.name == field {
			fs = f.sort
		}
	}
	return Term{app("select", h.S, ref.S), fs}
}

func (vc *VC) writeField(st *State, ref Term, structSort, field string, v Term) {
	hn, hs := vc.compHeap(structSort, field)
	h := vc.heapGet(st, hn, hs)
	vc.heapSet(st, hn, Term{app("store", h.S, ref.S, v.S), hs})
}

func (vc *VC) readStruct(st *State, ref Term, structSort string) Term {
	si := vc.sorts.StructInfo(structSort)
	if len(si.fields) == 0 {
		return Term{"mk_" + structSort, structSort}
	}
	parts := []string{"mk_" + structSort}
	for _, f := range si.fields {
		parts = append(parts, vc.readField(st, ref, structSort, f.name).S)
	}
	return Term{"(" + strings.Join(parts, " ") + ")", structSort}
}

func (vc *VC) writeStruct(st *State, ref Term, structSort string, v Term) {
	si := vc.sorts.StructInfo(structSort)
	for _, f := range si.fields {
		vc.writeField(st, ref, structSort, f.name, Term{vc.sel(structSort, f.name, v.S), f.sort})
	}
}

func (vc *VC) boxHeap(sort string) (string, string) {
	return "HP_" + sanitize(sort), "(Array Int " + sort + ")"
}

func (vc *VC) newRef(st *State, what string) Term {
	r := vc.fresh("ref_"+what, SInt)
	if st.allocTop.S == "" {
		vc.declare("alloc0", SInt)
		st.allocTop = Term{"alloc0", SInt}
		st.assume("(>= alloc0 0)")
	}
	st.assume(app(">", r.S, st.allocTop.S))
	st.allocTop = r
	// ghost sets over references only ever contain allocated objects
	for _, g := range sortedKeys(vc.prog.contracts.Ghosts) {
		gd := vc.prog.contracts.Ghosts[g]
		if strings.HasPrefix(gd.Type, "set[ref]") {
			var cur string
			if t, ok := st.ghost[g]; ok {
				cur = t.S
			} else {
				cur = vc.ghostInitName(st, g, "(Array Int Bool)")
			}
			st.assume(not(app("select", cur, r.S)))
		}
	}
	return r
}

// ensureBoxed: on this path, the content of a cell whose address escaped lives in the box heap at c.boxRef.
func (ex *Exec) ensureBoxed(st *State, c *Cell) {
	vc := ex.vc
	if st.boxedHere[c] || c.boxRef.S == "" {
		return
	}
	if st.boxedHere == nil {
		st.boxedHere = map[*Cell]bool{}
	}
	st.boxedHere[c] = true
	cur, ok := st.cells[c]
	if !ok {
		// no content of its own on this path: a cell of an earlier frame or one that was only ever used boxed
		return
	}
	if cur.K != VTerm {
		return
	}
	r := c.boxRef
	if st.allocTop.S == "" {
		vc.declare("alloc0", SInt)
		st.allocTop = Term{"alloc0", SInt}
		st.assume("(>= alloc0 0)")
	}
	st.assume(app(">", r.S, "alloc0"))
	st.assume(not(app("=", r.S, "0")))
	hn, hs := vc.boxHeap(c.sort)
	h := vc.heapGet(st, hn, hs)
	vc.heapSet(st, hn, Term{app("store", h.S, r.S, cur.T.S), hs})
}

// structural update of a value along a path
func (vc *VC) updatePath(cur Term, path []Step, v Term) Term {
	if len(path) == 0 {
		return v
	}
	s := path[0]
	if s.IsField {
		si := vc.sorts.StructInfo(s.StructSort)
		parts := []string{"mk_" + s.StructSort}
		for _, f := range si.fields {
			sel := Term{vc.sel(s.StructSort, f.name, cur.S), f.sort}
			if f.name == s.FieldName {
				parts = append(parts, vc.updatePath(sel, path[1:], v).S)
			} else {
				parts = append(parts, sel.S)
			}
		}
		return Term{"(" + strings.Join(parts, " ") + ")", s.StructSort}
	}
	elemSort := vc.sorts.seqs[s.SeqSort]
	at := Term{app("sq_at_"+s.SeqSort, cur.S, s.Idx.S), elemSort}
	nv := vc.updatePath(at, path[1:], v)
	return vc.seqUpdate(cur, s.Idx, nv)
}

func (vc *VC) seqUpdate(seq Term, idx Term, v Term) Term {
	if lit, ok := vc.seqLits[seq.S]; ok {
		if n, ok2 := parseSmallInt(idx.S); ok2 && n >= 0 && n < len(lit) {
			nl := append([]Term{}, lit...)
			nl[n] = v
			return vc.seqLit(seq.Sort, nl)
		}
	}
	return Term{app("sq_update_"+seq.Sort, seq.S, idx.S, v.S), seq.Sort}
}

func (vc *VC) seqLit(sort string, elems []Term) Term {
	s := "sq_empty_" + sort
	for _, e := range elems {
		s = app("sq_snoc_"+sort, s, e.S)
	}
	vc.seqLits[s] = elems
	return Term{s, sort}
}

func parseSmallInt(s string) (int, bool) {
	if s == "" {
		return 0, false
	}
	n := 0
	for _, c := range s {
		if c < '0' || c > '9' {
			return 0, false
		}
		n = n*10 + int(c-'0')
		if n > 1<<20 {
			return 0, false
		}
	}
	return n, true
}

func (vc *VC) readPath(cur Term, path []Step) Term {
	for _, s := range path {
		if s.IsField {
			si := vc.sorts.StructInfo(s.StructSort)
			fs := ""
			for _, f := range si.fields {
				if f.name == s.FieldName {
					fs = f.sort
				}
			}
			cur = Term{vc.sel(s.StructSort, s.FieldName, cur.S), fs}
		} else {
			if lit, ok := vc.seqLits[cur.S]; ok {
				if n, ok2 := parseSmallInt(s.Idx.S); ok2 && n < len(lit) {
					cur = lit[n]
					continue
				}
			}
			cur = Term{app("sq_at_"+s.SeqSort, cur.S, s.Idx.S), vc.sorts.seqs[s.SeqSort]}
		}
	}
	return cur
}

// load / store through pointers ---------------------------------------------

func (ex *Exec) load(st *State, p *Ptr) Val {
	vc := ex.vc
	switch p.Kind {
	case PCell:
		c := p.Cell
		if c.boxed {
			ex.ensureBoxed(st, c)
			hn, hs := vc.boxHeap(c.sort)
			base := Term{app("select", vc.heapGet(st, hn, hs).S, c.boxRef.S), c.sort}
			r := tv(vc.readPath(base, p.Path))
			r.Prov = p
			return r
		}
		v, ok := st.cells[c]
		if !ok {
			v = tv(vc.sorts.Zero(c.sort))
		}
		if len(p.Path) == 0 {
			if v.K == VTerm && v.Prov == nil {
				v.Prov = p
			}
			return v
		}
		if v.K != VTerm {
			vc.fatalf("load through path of non-term cell %s", c.name)
			return tv(vc.fresh("bad", vc.sorts.SortOf(p.Typ)))
		}
		r := tv(vc.readPath(v.T, p.Path))
		r.Prov = p
		return r
	case PRef:
		if len(p.Path) == 0 {
			return tv(vc.readStruct(st, p.Ref, p.SSort))
		}
		f := p.Path[0]
		base := vc.readField(st, p.Ref, p.SSort, f.FieldName)
		r := tv(vc.readPath(base, p.Path[1:]))
		r.Prov = p
		r.Back = vc.backLoaded(st, p, r.T)
		return r
	case PBox:
		hn, hs := vc.boxHeap(p.BSort)
		base := Term{app("select", vc.heapGet(st, hn, hs).S, p.Ref.S), p.BSort}
		r := tv(vc.readPath(base, p.Path))
		r.Prov = p
		return r
	case PSeq:
		return tv(vc.readPath(p.Seq, p.Path))
	case PGlobal:
		g := ex.globalTerm(st, p.Global)
		return tv(vc.readPath(g, p.Path))
	}
	panic("load")
}

func (ex *Exec) globalTerm(st *State, g *ssa.Global) Term {
	vc := ex.vc
	name := "g_" + sanitize(g.Pkg.Pkg.Name()+"_"+g.Name())
	s := vc.sorts.SortOf(g.Type().(*types.Pointer).Elem())
	if t, ok := st.ghost["global:"+name]; ok {
		return t
	}
	vc.declare(name, s)
	return Term{name, s}
}

func (ex *Exec) store(st *State, p *Ptr, v Val) {
	vc := ex.vc
	switch p.Kind {
	case PCell:
		c := p.Cell
		if st.writes != nil {
			st.writes.cells[c] = true
		}
		if c.boxed {
			ex.ensureBoxed(st, c)
			hn, hs := vc.boxHeap(c.sort)
			h := vc.heapGet(st, hn, hs)
			base := Term{app("select", h.S, c.boxRef.S), c.sort}
			nv := vc.updatePath(base, p.Path, ex.toTerm(st, v, p.Typ))
			vc.heapSet(st, hn, Term{app("store", h.S, c.boxRef.S, nv.S), hs})
			return
		}
		if len(p.Path) == 0 {
			v.Prov = nil
			st.cells[c] = v
			return
		}
		cur, ok := st.cells[c]
		if !ok {
			cur = tv(vc.sorts.Zero(c.sort))
		}
		if cur.K != VTerm {
			vc.fatalf("store through path into non-term cell %s", c.name)
			return
		}
		st.cells[c] = tv(vc.updatePath(cur.T, p.Path, ex.toTerm(st, v, p.Typ)))
	case PRef:
		if len(p.Path) == 0 {
			vc.writeStruct(st, p.Ref, p.SSort, ex.toTerm(st, v, p.Typ))
			return
		}
		f := p.Path[0]
		base := vc.readField(st, p.Ref, p.SSort, f.FieldName)
		nv := vc.updatePath(base, p.Path[1:], ex.toTerm(st, v, p.Typ))
		vc.writeField(st, p.Ref, p.SSort, f.FieldName, nv)
		vc.backStored(st, p, v)
	case PBox:
		hn, hs := vc.boxHeap(p.BSort)
		h := vc.heapGet(st, hn, hs)
		base := Term{app("select", h.S, p.Ref.S), p.BSort}
		nv := vc.updatePath(base, p.Path, ex.toTerm(st, v, p.Typ))
		vc.heapSet(st, hn, Term{app("store", h.S, p.Ref.S, nv.S), hs})
	case PSeq:
		nseq := vc.updatePath(p.Seq, p.Path, ex.toTerm(st, v, p.Typ))
		if p.SeqProv != nil {
			ex.store(st, p.SeqProv, tv(nseq))
			vc.note("in-place slice element write through %s (slices are values: aliasing of the backing array is not modelled)", ex.where())
		} else {
			vc.fatalf("in-place write into a slice of unknown origin at %s", ex.where())
		}
	case PGlobal:
		// the new value of a package-level variable (seen by later loads on this path)
		name := "g_" + sanitize(p.Global.Pkg.Pkg.Name()+"_"+p.Global.Name())
		cur := ex.globalTerm(st, p.Global)
		nv := ex.toTerm(st, v, p.Typ)
		if len(p.Path) > 0 {
			nv = vc.updatePath(cur, p.Path, nv)
		}
		st.ghost["global:"+name] = nv
	}
}

// toTerm converts a value into an SMT term of the sort of Go type t.
func (ex *Exec) toTerm(st *State, v Val, t types.Type) Term {
	vc := ex.vc
	switch v.K {
	case VTerm:
		return v.T
	case VPtr:
		return ex.materialize(st, v.P)
	case VClosure:
		vc.counter++
		name := fmt.Sprintf("func!%d", vc.counter)
		vc.declare(name, SFunc)
		vc.funcConsts[name] = v
		for _, b := range v.Bind {
			if b.K == VPtr && b.P.Kind == PCell {
				st.shared[b.P.Cell] = true
			}
		}
		return Term{name, SFunc}
	case VNone:
		if t != nil {
			return vc.sorts.Zero(vc.sorts.SortOf(t))
		}
	}
	vc.fatalf("cannot convert value to a term at %s", ex.where())
	return vc.fresh("bad", SInt)
}

func (ex *Exec) materialize(st *State, p *Ptr) Term {
	vc := ex.vc
	pt := types.Unalias(p.Typ)
	if isBigInt(pt) {
		return Term{app("oi_some", ex.load(st, p).T.S), SOptInt}
	}
	if isBigRat(pt) {
		return Term{app("or_some", ex.load(st, p).T.S), SOptRat}
	}
	switch p.Kind {
	case PRef:
		if len(p.Path) == 0 {
			return p.Ref
		}
	case PBox:
		if len(p.Path) == 0 {
			return p.Ref
		}
	case PCell:
		if len(p.Path) == 0 {
			c := p.Cell
			if !c.boxed {
				cur, ok := st.cells[c]
				var ct Term
				if !ok {
					ct = vc.sorts.Zero(c.sort)
				} else {
					ct = ex.toTerm(st, cur, c.typ)
				}
				r := vc.newRef(st, c.name)
				hn, hs := vc.boxHeap(c.sort)
				h := vc.heapGet(st, hn, hs)
				vc.heapSet(st, hn, Term{app("store", h.S, r.S, ct.S), hs})
				c.boxed, c.boxRef = true, r
				if st.boxedHere == nil {
					st.boxedHere = map[*Cell]bool{}
				}
				st.boxedHere[c] = true
				// the box reference is one name per VC; every path moves the cell's content into the
				// box the first time it touches the cell after that (ensureBoxed)
			}
			ex.ensureBoxed(st, c)
			return c.boxRef
		}
	}
	vc.note("pointer into an aggregate escapes at %s: modelled as an opaque non-nil reference", ex.where())
	op := vc.fresh("opaqueptr", SRef)
	st.assume(not(app("=", op.S, "0")))
	return op
}

// Exec ------------------------------------------------------------------------

type Exec struct {
	vc  *VC
	cur ssa.Instruction
}

func (ex *Exec) where() string {
	if ex.cur == nil {
		return "?"
	}
	pos := ex.vc.prog.fset.Position(ex.cur.Pos())
	if !pos.IsValid() {
		// nearest earlier instruction of the block with a position
		if b := ex.cur.Block(); b != nil {
			idx := -1
			for i, in := range b.Instrs {
				if in == ex.cur {
					idx = i
				}
			}
			for i := idx - 1; i >= 0; i-- {
				if p2 := ex.vc.prog.fset.Position(b.Instrs[i].Pos()); p2.IsValid() {
					pos = p2
					break
				}
				if v, ok := b.Instrs[i].(*ssa.DebugRef); ok {
					if p2 := ex.vc.prog.fset.Position(v.Expr.Pos()); p2.IsValid() {
						pos = p2
						break
					}
				}
			}
		}
	}
	if !pos.IsValid() {
		if ex.cur.Parent() != nil {
			return ex.cur.Parent().Name()
		}
		return "?"
	}
	return fmt.Sprintf("%s:%d", shortFile(pos.Filename), pos.Line)
}

func shortFile(f string) string {
	if i := strings.Index(f, "/repo/"); i >= 0 {
		return f[i+6:]
	}
	return f
}

type Frame struct {
	id       int
	fn       *ssa.Function
	vals     map[ssa.Value]Val
	depth    int
	top      bool
	loops    map[*ssa.BasicBlock]int // header -> ordinal
	loopBody map[*ssa.BasicBlock]map[*ssa.BasicBlock]bool
	contract *FuncContract
	params   []Val
	free     []Val
	oldState *State
	caller   *Frame
}

type Cont func(st *State, rets []Val, panicked bool)

func (ex *Exec) newFrame(fn *ssa.Function, depth int, caller *Frame) *Frame {
	ex.vc.frameCtr++
	fr := &Frame{id: ex.vc.frameCtr, fn: fn, vals: map[ssa.Value]Val{}, depth: depth, caller: caller}
	fr.loops, fr.loopBody = findLoops(fn)
	ex.vc.prog.remapLoops(fn, fr.loops, fr.loopBody)
	return fr
}

// findLoops returns loop headers (targets of back edges) in source order.
func findLoops(fn *ssa.Function) (map[*ssa.BasicBlock]int, map[*ssa.BasicBlock]map[*ssa.BasicBlock]bool) {
	headers := map[*ssa.BasicBlock]bool{}
	bodies := map[*ssa.BasicBlock]map[*ssa.BasicBlock]bool{}
	for _, b := range fn.Blocks {
		for _, s := range b.Succs {
			if s.Dominates(b) {
				headers[s] = true
				if bodies[s] == nil {
					bodies[s] = map[*ssa.BasicBlock]bool{s: true}
				}
				// natural loop: nodes that reach b without passing through s
				var stack []*ssa.BasicBlock
				if !bodies[s][b] {
					bodies[s][b] = true
					stack = append(stack, b)
				}
				for len(stack) > 0 {
					n := stack[len(stack)-1]
					stack = stack[:len(stack)-1]
					for _, p := range n.Preds {
						if !bodies[s][p] {
							bodies[s][p] = true
							stack = append(stack, p)
						}
					}
				}
			}
		}
	}
	ord := map[*ssa.BasicBlock]int{}
	n := 0
	for _, b := range fn.Blocks {
		if headers[b] {
			n++
			ord[b] = n
		}
	}
	// order by the smallest block index in the loop body (source order of the
	// statement), which also orders a for-loop whose header block is created
	// after its body
	type hb struct {
		h   *ssa.BasicBlock
		min int
	}
	var hs []hb
	for h := range headers {
		m := h.Index
		for b := range bodies[h] {
			if b.Index < m {
				m = b.Index
			}
		}
		hs = append(hs, hb{h, m})
	}
	for i := range hs {
		for j := i + 1; j < len(hs); j++ {
			if hs[j].min < hs[i].min {
				hs[i], hs[j] = hs[j], hs[i]
			}
		}
	}
	for i, x := range hs {
		ord[x.h] = i + 1
	}
	return ord, bodies
}

func (ex *Exec) val(fr *Frame, st *State, v ssa.Value) Val {
	switch x := v.(type) {
	case *ssa.Const:
		return ex.constVal(x)
	case *ssa.Global:
		return Val{K: VPtr, P: &Ptr{Kind: PGlobal, Global: x, Typ: x.Type().(*types.Pointer).Elem()}}
	case *ssa.Function:
		return Val{K: VClosure, Fn: x}
	case *ssa.Builtin:
		return Val{K: VNone}
	case *ssa.Parameter:
		for i, p := range fr.fn.Params {
			if p == x {
				return fr.params[i]
			}
		}
	case *ssa.FreeVar:
		for i, p := range fr.fn.FreeVars {
			if p == x {
				if i < len(fr.free) {
					return fr.free[i]
				}
			}
		}
		ex.vc.fatalf("free variable %s of %s has no binding", x.Name(), fr.fn.Name())
		return tv(ex.vc.fresh("freevar", ex.vc.sorts.SortOf(x.Type())))
	}
	if r, ok := fr.vals[v]; ok {
		return r
	}
	ex.vc.fatalf("value %s (%T) not computed in %s", v.Name(), v, fr.fn.Name())
	return tv(ex.vc.fresh("undef", ex.vc.sorts.SortOf(v.Type())))
}

func (ex *Exec) constVal(c *ssa.Const) Val {
	vc := ex.vc
	t := c.Type()
	s := vc.sorts.SortOf(t)
	if c.Value == nil {
		return tv(vc.sorts.Zero(s))
	}
	switch c.Value.Kind() {
	case constant.Bool:
		if constant.BoolVal(c.Value) {
			return tv(Term{"true", SBool})
		}
		return tv(Term{"false", SBool})
	case constant.String:
		return tv(vc.strLit(constant.StringVal(c.Value)))
	case constant.Int:
		str := c.Value.ExactString()
		if s == SReal {
			if strings.HasPrefix(str, "-") {
				return tv(Term{"(- " + str[1:] + ".0)", SReal})
			}
			return tv(Term{str + ".0", SReal})
		}
		if strings.HasPrefix(str, "-") {
			return tv(Term{"(- " + str[1:] + ")", SInt})
		}
		return tv(Term{str, SInt})
	case constant.Float:
		f, _ := constant.Float64Val(c.Value)
		return tv(Term{fmt.Sprintf("%f", f), SReal})
	}
	return tv(vc.fresh("const", s))
}

// run executes block b from instruction index i.
func (ex *Exec) run(fr *Frame, b *ssa.BasicBlock, i int, pred *ssa.BasicBlock, st *State, k Cont) {
	vc := ex.vc
	if len(vc.fatal) > 0 || vc.paths > vc.maxPaths {
		return
	}
	if traceOn && vc.collecting == 0 && i <= 0 {
		fmt.Fprintf(os.Stderr, "TRACE %s block %d (%s) pc=%d\n", fr.fn.Name(), b.Index, b.Comment, len(st.pc))
	}
	if st.colBody != nil && st.colFrame == fr.id && !st.colBody[b] {
		return
	}
	if i == 0 {
		if ord, ok := fr.loops[b]; ok {
			if !ex.loopHead(fr, b, ord, pred, st, k) {
				return
			}
		}
	}
	if i < 0 {
		i = 0
	}
	for ; i < len(b.Instrs); i++ {
		ins := b.Instrs[i]
		ex.cur = ins
		switch x := ins.(type) {
		case *ssa.DebugRef:
			continue
		case *ssa.If:
			c := ex.toTerm(st, ex.val(fr, st, x.Cond), nil)
			ex.branch(fr, b, st, c.S, k)
			return
		case *ssa.Jump:
			ex.run(fr, b.Succs[0], 0, b, st, k)
			return
		case *ssa.Return:
			var rets []Val
			for _, r := range x.Results {
				rets = append(rets, ex.val(fr, st, r))
				if fr.top {
					ex.checkTypeInv(fr, st, rets[len(rets)-1], r.Type(), "returned")
				}
			}
			k(st, rets, false)
			return
		case *ssa.Panic:
			st.note("panic at %s", ex.where())
			k(st, []Val{ex.val(fr, st, x.X)}, true)
			return
		case *ssa.RunDefers:
			idx := i
			ex.runDefers(fr, st, func(st2 *State, panicked bool) {
				if panicked {
					k(st2, nil, true)
					return
				}
				ex.run(fr, b, idx+1, pred, st2, k)
			})
			return
		case *ssa.Call:
			idx := i
			ex.call(fr, x, st, func(st2 *State, res Val, panicked bool) {
				if panicked {
					k(st2, nil, true)
					return
				}
				fr.vals[x] = res
				ex.run(fr, b, idx+1, pred, st2, k)
			})
			return
		case *ssa.Select:
			idx := i
			ex.selectInstr(fr, x, st, func(st2 *State, res Val) {
				fr.vals[x] = res
				ex.run(fr, b, idx+1, pred, st2, k)
			})
			return
		default:
			if !ex.instr(fr, ins, pred, st) {
				return
			}
			if st.dead {
				return
			}
		}
	}
}

func (ex *Exec) branch(fr *Frame, b *ssa.BasicBlock, st *State, cond string, k Cont) {
	if cond == "true" {
		ex.run(fr, b.Succs[0], 0, b, st, k)
		return
	}
	if cond == "false" {
		ex.run(fr, b.Succs[1], 0, b, st, k)
		return
	}
	switch st.known(cond) {
	case 1:
		ex.run(fr, b.Succs[0], 0, b, st, k)
		return
	case -1:
		ex.run(fr, b.Succs[1], 0, b, st, k)
		return
	}
	st2 := st.clone()
	cur := ex.cur
	st.assume(cond)
	st.note("%s: true", ex.where())
	ex.run(fr, b.Succs[0], 0, b, st, k)
	ex.cur = cur
	st2.assume(not(cond))
	st2.note("%s: false", ex.where())
	ex.run(fr, b.Succs[1], 0, b, st2, k)
}

func (ex *Exec) runDefers(fr *Frame, st *State, k func(st *State, panicked bool)) {
	ds := st.defers[fr.id]
	if len(ds) == 0 {
		k(st, false)
		return
	}
	d := ds[len(ds)-1]
	st.defers[fr.id] = ds[:len(ds)-1]
	ex.callValue(fr, d.fn, d.args, d.site, d.site.Common(), st, func(st2 *State, _ Val, panicked bool) {
		if panicked {
			k(st2, true)
			return
		}
		ex.runDefers(fr, st2, k)
	})
}

func (ex *Exec) newCell(st *State, a *ssa.Alloc, frame int) *Cell {
	vc := ex.vc
	vc.cellCtr++
	et := a.Type().(*types.Pointer).Elem()
	c := &Cell{id: vc.cellCtr, frame: frame, name: a.Comment, typ: et, sort: vc.sorts.SortOf(et), alloc: a}
	st.order = append(st.order, c)
	return c
}

func intKindRange(t types.Type) (lo, hi string, ok bool) {
	b, isb := t.Underlying().(*types.Basic)
	if !isb {
		return "", "", false
	}
	switch b.Kind() {
	case types.Int, types.Int64:
		return "(- 9223372036854775808)", "9223372036854775807", true
	case types.Int32:
		return "(- 2147483648)", "2147483647", true
	case types.Int16:
		return "(- 32768)", "32767", true
	case types.Int8:
		return "(- 128)", "127", true
	case types.Uint, types.Uint64, types.Uintptr:
		return "0", "18446744073709551615", true
	case types.Uint32:
		return "0", "4294967295", true
	case types.Uint16:
		return "0", "65535", true
	case types.Uint8:
		return "0", "255", true
	}
	return "", "", false
}

func intBits(t types.Type) (bits int, signed bool, ok bool) {
	b, isb := t.Underlying().(*types.Basic)
	if !isb {
		return 0, false, false
	}
	switch b.Kind() {
	case types.Int, types.Int64:
		return 64, true, true
	case types.Int32:
		return 32, true, true
	case types.Int16:
		return 16, true, true
	case types.Int8:
		return 8, true, true
	case types.Uint, types.Uint64, types.Uintptr:
		return 64, false, true
	case types.Uint32:
		return 32, false, true
	case types.Uint16:
		return 16, false, true
	case types.Uint8:
		return 8, false, true
	}
	return 0, false, false
}

func pow2(n int) string {
	switch n {
	case 8:
		return "256"
	case 16:
		return "65536"
	case 32:
		return "4294967296"
	case 64:
		return "18446744073709551616"
	case 7:
		return "128"
	case 15:
		return "32768"
	case 31:
		return "2147483648"
	case 63:
		return "9223372036854775808"
	}
	return "1"
}

// instr handles the simple (non-forking) instructions. Returns false to stop.
func (ex *Exec) instr(fr *Frame, ins ssa.Instruction, pred *ssa.BasicBlock, st *State) bool {
	vc := ex.vc
	switch x := ins.(type) {
	case *ssa.Alloc:
		et := x.Type().(*types.Pointer).Elem()
		es := vc.sorts.SortOf(et)
		if x.Heap {
			if _, isStruct := vc.sorts.structs[es]; isStruct && !isBigInt(types.Unalias(et)) {
				r := vc.newRef(st, x.Comment)
				vc.writeStruct(st, r, es, vc.sorts.Zero(es))
				fr.vals[x] = Val{K: VPtr, P: &Ptr{Kind: PRef, Ref: r, SSort: es, Typ: et}}
				if x.Comment != "" && x.Comment != "complit" {
					st.named = append(st.named, namedRef{x.Comment, fr.id, r, x.Type()})
				}
				return true
			}
		}
		c := ex.newCell(st, x, fr.id)
		st.cells[c] = tv(vc.sorts.Zero(c.sort))
		if n, ok := types.Unalias(et).Underlying().(*types.Array); ok {
			// arrays: a sequence literal of zero values
			es := vc.sorts.SortOf(n.Elem())
			if n.Len() <= 16 {
				var elems []Term
				for j := int64(0); j < n.Len(); j++ {
					elems = append(elems, vc.sorts.Zero(es))
				}
				st.cells[c] = tv(vc.seqLit(c.sort, elems))
			} else {
				st.cells[c] = tv(Term{app("sq_zeros_"+c.sort, fmt.Sprint(n.Len())), c.sort})
			}
		}
		fr.vals[x] = Val{K: VPtr, P: &Ptr{Kind: PCell, Cell: c, Typ: et}}
	case *ssa.Store:
		addr := ex.val(fr, st, x.Addr)
		v := ex.val(fr, st, x.Val)
		p := ex.asPtr(st, addr, x.Addr.Type())
		if p == nil {
			return true
		}
		// keep structural values (pointers to cells, closures) in cells
		if (v.K == VPtr || v.K == VClosure) && p.Kind == PCell && len(p.Path) == 0 && !p.Cell.boxed {
			ex.store(st, p, v)
			return true
		}
		nv := tv(ex.toTerm(st, v, x.Val.Type()))
		nv.Back = v.Back
		if c, ok := x.Val.(*ssa.Const); ok && c.Value == nil && isSeqSort(nv.T.Sort) {
			// the nil slice has no backing array: appending to it allocates
			nv.Back = &Backing{origin: "nil", lo: Term{"0", SInt}, fresh: true}
		}
		ex.store(st, p, nv)
	case *ssa.UnOp:
		ex.unop(fr, x, st)
	case *ssa.BinOp:
		a := ex.val(fr, st, x.X)
		b := ex.val(fr, st, x.Y)
		fr.vals[x] = tv(ex.binop(st, x.Op, a, b, x.X.Type(), x.Type()))
	case *ssa.FieldAddr:
		base := ex.val(fr, st, x.X)
		pt := x.X.Type().Underlying().(*types.Pointer).Elem()
		stt := pt.Underlying().(*types.Struct)
		p := ex.asPtr(st, base, x.X.Type())
		if p == nil {
			fr.vals[x] = Val{K: VPtr, P: &Ptr{Kind: PBox, Ref: vc.fresh("nilptr", SRef), BSort: vc.sorts.SortOf(stt.Field(x.Field).Type()), Typ: stt.Field(x.Field).Type()}}
			return true
		}
		ss := vc.sorts.SortOf(pt)
		if _, known := vc.sorts.structs[ss]; !known {
			// field of an opaque (library) struct: a scratch location of its own; writes are not tracked, reads are arbitrary
			// (an embedded pointer is read as a function of the object: the library sets it when it builds the object)
			ft := stt.Field(x.Field).Type()
			vc.cellCtr++
			c := &Cell{id: vc.cellCtr, frame: fr.id, name: "opaquefield", typ: ft, sort: vc.sorts.SortOf(ft)}
			if fn := vc.opaqueEmbedded(pt, stt, x.Field); fn != "" {
				st.cells[c] = tv(Term{app(fn, ex.toTerm(st, base, x.X.Type()).S), c.sort})
				fr.vals[x] = Val{K: VPtr, P: &Ptr{Kind: PCell, Cell: c, Typ: ft}}
				return true
			}
			st.cells[c] = tv(vc.fresh("opaquefield", c.sort))
			fr.vals[x] = Val{K: VPtr, P: &Ptr{Kind: PCell, Cell: c, Typ: ft}}
			return true
		}
		fr.vals[x] = Val{K: VPtr, P: p.extend(Step{IsField: true, Field: x.Field, FieldName: stt.Field(x.Field).Name(), StructSort: ss}, stt.Field(x.Field).Type())}
	case *ssa.Field:
		base := ex.toTerm(st, ex.val(fr, st, x.X), x.X.Type())
		stt := x.X.Type().Underlying().(*types.Struct)
		ss := vc.sorts.SortOf(x.X.Type())
		if _, known := vc.sorts.structs[ss]; !known {
			fr.vals[x] = tv(vc.fresh("opaquefield", vc.sorts.SortOf(stt.Field(x.Field).Type())))
			return true
		}
		fr.vals[x] = tv(Term{vc.sel(ss, stt.Field(x.Field).Name(), base.S), vc.sorts.SortOf(stt.Field(x.Field).Type())})
	case *ssa.IndexAddr:
		base := ex.val(fr, st, x.X)
		idx := ex.toTerm(st, ex.val(fr, st, x.Index), nil)
		switch bt := x.X.Type().Underlying().(type) {
		case *types.Pointer: // pointer to array
			p := ex.asPtr(st, base, x.X.Type())
			at := bt.Elem().Underlying().(*types.Array)
			ex.boundsCheck(fr, st, idx, Term{fmt.Sprint(at.Len()), SInt})
			fr.vals[x] = Val{K: VPtr, P: p.extend(Step{Idx: idx, SeqSort: vc.sorts.SortOf(bt.Elem())}, at.Elem())}
		case *types.Slice:
			seq := ex.toTerm(st, base, x.X.Type())
			ex.boundsCheck(fr, st, idx, Term{app("sq_len_"+seq.Sort, seq.S), SInt})
			if base.Prov != nil && base.Prov.Kind != PSeq {
				// a pointer into the slice held by a location: reads and writes go through that
				// location, so several element pointers taken from one load stay coherent
				vc.note("in-place slice element access through %s (slices are values: aliasing of the backing array is not modelled)", ex.where())
				fr.vals[x] = Val{K: VPtr, P: base.Prov.extend(Step{Idx: idx, SeqSort: seq.Sort}, bt.Elem())}
			} else {
				fr.vals[x] = Val{K: VPtr, P: &Ptr{Kind: PSeq, Seq: seq, SeqProv: base.Prov, Path: []Step{{Idx: idx, SeqSort: seq.Sort}}, Typ: bt.Elem()}}
			}
		default:
			vc.fatalf("IndexAddr on %s", x.X.Type())
		}
	case *ssa.Index:
		base := ex.toTerm(st, ex.val(fr, st, x.X), x.X.Type())
		idx := ex.toTerm(st, ex.val(fr, st, x.Index), nil)
		if base.Sort == SStr {
			vc.declareFun("str_at", []string{SStr, SInt}, SInt)
			fr.vals[x] = tv(Term{app("str_at", base.S, idx.S), SInt})
			return true
		}
		ex.boundsCheck(fr, st, idx, Term{app("sq_len_"+base.Sort, base.S), SInt})
		fr.vals[x] = tv(vc.readPath(base, []Step{{Idx: idx, SeqSort: base.Sort}}))
	case *ssa.Slice:
		ex.sliceInstr(fr, x, st)
	case *ssa.MakeSlice:
		n := ex.toTerm(st, ex.val(fr, st, x.Len), nil)
		s := vc.sorts.SortOf(x.Type())
		var r Val
		if n.S == "0" {
			r = tv(Term{"sq_empty_" + s, s})
		} else {
			ex.obligation(fr, st, "nopanic", "make: length >= 0", app(">=", n.S, "0"), true)
			r = tv(Term{app("sq_zeros_"+s, n.S), s})
		}
		vc.counter++
		r.Back = &Backing{origin: fmt.Sprintf("make#%d", vc.counter), lo: Term{"0", SInt}, fresh: true}
		fr.vals[x] = r
	case *ssa.MakeMap:
		mt := x.Type().Underlying().(*types.Map)
		r := vc.newRef(st, "map")
		dn, vn := vc.sorts.mapHeaps(mt)
		ks, vs := vc.sorts.SortOf(mt.Key()), vc.sorts.SortOf(mt.Elem())
		ds := "(Array Int (Array " + ks + " Bool))"
		d := vc.heapGet(st, dn, ds)
		vc.heapSet(st, dn, Term{app("store", d.S, r.S, "((as const (Array "+ks+" Bool)) false)"), ds})
		_ = vn
		_ = vs
		fr.vals[x] = tv(r)
	case *ssa.MakeChan:
		r := vc.newRef(st, "chan")
		h := vc.heapGet(st, "CH_closed", "(Array Int Bool)")
		vc.heapSet(st, "CH_closed", Term{app("store", h.S, r.S, "false"), "(Array Int Bool)"})
		fr.vals[x] = tv(r)
	case *ssa.MapUpdate:
		m := ex.toTerm(st, ex.val(fr, st, x.Map), x.Map.Type())
		mt := x.Map.Type().Underlying().(*types.Map)
		kk := ex.toTerm(st, ex.val(fr, st, x.Key), mt.Key())
		vv := ex.toTerm(st, ex.val(fr, st, x.Value), mt.Elem())
		ex.obligation(fr, st, "nopanic", "assignment to entry in nil map", app("not", app("=", m.S, "0")), true)
		ex.mapStore(st, mt, m, kk, vv)
	case *ssa.Lookup:
		ex.lookup(fr, x, st)
	case *ssa.MakeInterface:
		v := ex.val(fr, st, x.X)
		ex.checkTypeInv(fr, st, v, x.X.Type(), "converted to an interface")
		c := vc.sorts.AnyCtor(x.X.Type())
		t := ex.toTerm(st, v, x.X.Type())
		if c.sort == SAny {
			fr.vals[x] = tv(t)
		} else {
			r := tv(Term{app(c.name, t.S), SAny})
			fr.vals[x] = r
		}
	case *ssa.ChangeInterface:
		fr.vals[x] = ex.val(fr, st, x.X)
	case *ssa.ChangeType:
		v := ex.val(fr, st, x.X)
		if v.K == VPtr {
			q := *v.P
			if pt, ok := x.Type().Underlying().(*types.Pointer); ok && len(q.Path) == 0 {
				q.Typ = pt.Elem()
			}
			fr.vals[x] = Val{K: VPtr, P: &q}
		} else {
			fr.vals[x] = v
		}
	case *ssa.Convert:
		fr.vals[x] = tv(ex.convert(st, ex.val(fr, st, x.X), x.X.Type(), x.Type()))
	case *ssa.TypeAssert:
		return ex.typeAssert(fr, x, st)
	case *ssa.Extract:
		t := ex.val(fr, st, x.Tuple)
		if t.K != VTuple || x.Index >= len(t.Tup) {
			vc.fatalf("extract from non-tuple at %s", ex.where())
			return false
		}
		fr.vals[x] = t.Tup[x.Index]
	case *ssa.Phi:
		for j, p := range x.Block().Preds {
			if p == pred {
				fr.vals[x] = ex.val(fr, st, x.Edges[j])
				return true
			}
		}
		vc.fatalf("phi without matching predecessor in %s", fr.fn.Name())
		return false
	case *ssa.MakeClosure:
		var binds []Val
		for _, b := range x.Bindings {
			binds = append(binds, ex.val(fr, st, b))
		}
		fr.vals[x] = Val{K: VClosure, Fn: x.Fn.(*ssa.Function), Bind: binds}
		ex.checkCaptures(fr, st, x, binds)
	case *ssa.Defer:
		var args []Val
		for _, a := range x.Call.Args {
			args = append(args, ex.val(fr, st, a))
		}
		var fnv Val
		if x.Call.IsInvoke() {
			fnv = ex.val(fr, st, x.Call.Value)
		} else if sc := x.Call.StaticCallee(); sc != nil && x.Call.Value == ssa.Value(sc) {
			fnv = Val{K: VClosure, Fn: sc}
		} else {
			fnv = ex.val(fr, st, x.Call.Value)
		}
		st.defers[fr.id] = append(st.defers[fr.id], deferRec{fn: fnv, args: args, site: x})
	case *ssa.Go:
		ex.goInstr(fr, x, st)
	case *ssa.Send:
		ex.sendInstr(fr, x, st)
	case *ssa.Range:
		ex.rangeInstr(fr, x, st)
	case *ssa.Next:
		ex.nextInstr(fr, x, st)
	default:
		vc.fatalf("unsupported instruction %T at %s", ins, ex.where())
		return false
	}
	return true
}

// asPtr interprets a value of pointer type as a structural pointer.
func (ex *Exec) asPtr(st *State, v Val, t types.Type) *Ptr {
	vc := ex.vc
	if v.K == VPtr {
		return v.P
	}
	if v.K != VTerm {
		vc.fatalf("pointer expected at %s", ex.where())
		return nil
	}
	pt, ok := t.Underlying().(*types.Pointer)
	if !ok {
		vc.fatalf("asPtr on %s", t)
		return nil
	}
	et := types.Unalias(pt.Elem())
	if isBigInt(et) || isBigRat(et) {
		// a big value behind an opaque pointer: readable snapshot, not writable
		c := &Cell{id: -1, name: "bigsnap", typ: et, sort: vc.sorts.SortOf(et)}
		sel := "oi_val"
		if isBigRat(et) {
			sel = "or_val"
		}
		ex.obligation(vc.curFrame, st, "nopanic", "nil dereference", not(app("=", v.T.S, vc.sorts.Zero(v.T.Sort).S)), true)
		st.cells[c] = tv(Term{app(sel, v.T.S), c.sort})
		return &Ptr{Kind: PCell, Cell: c, Typ: et}
	}
	es := vc.sorts.SortOf(et)
	ex.obligation(vc.curFrame, st, "nopanic", "nil dereference", not(app("=", v.T.S, "0")), true)
	if _, isStruct := vc.sorts.structs[es]; isStruct {
		return &Ptr{Kind: PRef, Ref: v.T, SSort: es, Typ: et}
	}
	return &Ptr{Kind: PBox, Ref: v.T, BSort: es, Typ: et}
}

func (ex *Exec) boundsCheck(fr *Frame, st *State, idx, n Term) {
	ex.obligation(fr, st, "nopanic", "index in range", and(app("<=", "0", idx.S), app("<", idx.S, n.S)), true)
}

func (ex *Exec) unop(fr *Frame, x *ssa.UnOp, st *State) {
	vc := ex.vc
	v := ex.val(fr, st, x.X)
	switch x.Op {
	case token.MUL: // load
		p := ex.asPtr(st, v, x.X.Type())
		if p == nil {
			fr.vals[x] = tv(vc.fresh("load", vc.sorts.SortOf(x.Type())))
			return
		}
		lv := ex.load(st, p)
		if lv.K == VTerm {
			ex.assumeIntRange(st, lv.T, x.Type())
		}
		if g, ok := x.X.(*ssa.Global); ok && lv.K == VTerm && !(fr.fn.Name() == "init" && fr.fn.Pkg == g.Pkg) {
			if d := vc.prog.globalInv(g); d != nil {
				vc.usedCon["globalinv "+d.Name] = true
				f, _ := ex.invFormula(st, d, lv.T, x.Type(), false)
				st.assume(f)
			}
		}
		fr.vals[x] = lv
	case token.NOT:
		fr.vals[x] = tv(Term{not(ex.toTerm(st, v, nil).S), SBool})
	case token.SUB:
		t := ex.toTerm(st, v, nil)
		fr.vals[x] = tv(Term{app("-", t.S), t.Sort})
	case token.ARROW:
		ex.recvInstr(fr, x, st)
	case token.XOR:
		vc.declareFun("bit_not", []string{SInt}, SInt)
		fr.vals[x] = tv(Term{app("bit_not", ex.toTerm(st, v, nil).S), SInt})
	default:
		vc.fatalf("unsupported unary op %s", x.Op)
	}
}

func (ex *Exec) binop(st *State, op token.Token, a, b Val, xt types.Type, rt types.Type) Term {
	vc := ex.vc
	at := ex.toTerm(st, a, xt)
	bt := ex.toTerm(st, b, xt)
	// nil constants compared with typed operands
	if at.Sort != bt.Sort {
		if at.S == "any_nil" || at.S == "0" || at.S == "oi_none" {
			at = vc.sorts.Zero(bt.Sort)
		} else if bt.S == "any_nil" || bt.S == "0" || bt.S == "oi_none" {
			bt = vc.sorts.Zero(at.Sort)
		}
	}
	isSeq := strings.HasPrefix(at.Sort, "Seq_")
	// arithmetic of the sized signed integer types (int64, int32, int16, int8) wraps: those are the types values of
	// unbounded integers are narrowed into (big.Int.Int64()), where an overflow is a wrong amount rather than a crash.
	// int, uint and the sized unsigned types stay mathematical (stated in the trusted base).
	if at.Sort == SInt && (op == token.ADD || op == token.SUB || op == token.MUL) {
		if bk, ok := xt.Underlying().(*types.Basic); ok {
			bits := 0
			switch bk.Kind() {
			case types.Int64:
				bits = 64
			case types.Int32:
				bits = 32
			case types.Int16:
				bits = 16
			case types.Int8:
				bits = 8
			}
			if bits > 0 {
				var r string
				switch op {
				case token.ADD:
					r = app("+", at.S, bt.S)
				case token.SUB:
					r = app("-", at.S, bt.S)
				default:
					r = app("imul", at.S, bt.S)
					if _, ok := parseSmallInt(at.S); ok {
						r = app("*", at.S, bt.S)
					} else if _, ok := parseSmallInt(bt.S); ok {
						r = app("*", at.S, bt.S)
					}
				}
				m := pow2(bits)
				w := app("mod", r, m)
				return Term{ite(app(">=", w, pow2(bits-1)), app("-", w, m), w), SInt}
			}
		}
	}
	switch op {
	case token.ADD:
		if at.Sort == SStr {
			return Term{app("str_cat", at.S, bt.S), SStr}
		}
		return Term{app("+", at.S, bt.S), at.Sort}
	case token.SUB:
		return Term{app("-", at.S, bt.S), at.Sort}
	case token.MUL:
		if at.Sort == SInt {
			if _, ok := parseSmallInt(at.S); ok {
				return Term{app("*", at.S, bt.S), SInt}
			}
			if _, ok := parseSmallInt(bt.S); ok {
				return Term{app("*", at.S, bt.S), SInt}
			}
			return Term{app("imul", at.S, bt.S), SInt}
		}
		return Term{app("*", at.S, bt.S), at.Sort}
	case token.QUO:
		if at.Sort == SInt {
			ex.obligation(vc.curFrame, st, "nopanic", "division by zero", not(app("=", bt.S, "0")), true)
			return Term{app("go_div", at.S, bt.S), SInt}
		}
		return Term{app("/", at.S, bt.S), at.Sort}
	case token.REM:
		ex.obligation(vc.curFrame, st, "nopanic", "division by zero", not(app("=", bt.S, "0")), true)
		return Term{app("go_mod", at.S, bt.S), SInt}
	case token.EQL:
		if isSeq { // only comparison with nil is legal Go
			return Term{app("=", app("sq_len_"+at.Sort, at.S), "0"), SBool}
		}
		return Term{eqTerm(at.S, bt.S), SBool}
	case token.NEQ:
		if isSeq {
			return Term{not(app("=", app("sq_len_"+at.Sort, at.S), "0")), SBool}
		}
		return Term{not(eqTerm(at.S, bt.S)), SBool}
	case token.LSS, token.LEQ, token.GTR, token.GEQ:
		o := map[token.Token]string{token.LSS: "<", token.LEQ: "<=", token.GTR: ">", token.GEQ: ">="}[op]
		if at.Sort == SStr {
			vc.declareFun("str_lt", []string{SStr, SStr}, SBool)
			switch op {
			case token.LSS:
				return Term{app("str_lt", at.S, bt.S), SBool}
			case token.GTR:
				return Term{app("str_lt", bt.S, at.S), SBool}
			case token.LEQ:
				return Term{not(app("str_lt", bt.S, at.S)), SBool}
			default:
				return Term{not(app("str_lt", at.S, bt.S)), SBool}
			}
		}
		return Term{app(o, at.S, bt.S), SBool}
	case token.LAND:
		return Term{and(at.S, bt.S), SBool}
	case token.LOR:
		return Term{or(at.S, bt.S), SBool}
	case token.AND, token.OR, token.XOR, token.SHL, token.SHR, token.AND_NOT:
		name := "bit_" + map[token.Token]string{token.AND: "and", token.OR: "or", token.XOR: "xor", token.SHL: "shl", token.SHR: "shr", token.AND_NOT: "andnot"}[op]
		vc.declareFun(name, []string{SInt, SInt}, SInt)
		return Term{app(name, at.S, bt.S), SInt}
	}
	vc.fatalf("unsupported binary op %s", op)
	return vc.fresh("binop", vc.sorts.SortOf(rt))
}

func (ex *Exec) convert(st *State, v Val, from, to types.Type) Term {
	vc := ex.vc
	t := ex.toTerm(st, v, from)
	fs, ts := vc.sorts.SortOf(from), vc.sorts.SortOf(to)
	if fs == ts {
		if fs == SInt {
			fb, fsg, ok1 := intBits(from)
			tb, tsg, ok2 := intBits(to)
			if ok1 && ok2 {
				// widening within the same signedness, or unsigned -> wider signed: identity
				if (fsg == tsg && tb >= fb) || (!fsg && tsg && tb > fb) {
					return t
				}
				m := pow2(tb)
				w := app("mod", t.S, m)
				if tsg {
					half := pow2(tb - 1)
					return Term{ite(app(">=", w, half), app("-", w, m), w), SInt}
				}
				return Term{w, SInt}
			}
		}
		return t
	}
	switch {
	case fs == SInt && ts == SReal:
		return Term{app("to_real", t.S), SReal}
	case fs == SReal && ts == SInt:
		return Term{app("to_int", t.S), SInt}
	case fs == SStr && strings.HasPrefix(ts, "Seq_"):
		vc.declareFun("str_bytes", []string{SStr}, ts)
		return Term{app("str_bytes", t.S), ts}
	case strings.HasPrefix(fs, "Seq_") && ts == SStr:
		name := "bytes_str_" + fs
		vc.declareFun(name, []string{fs}, SStr)
		return Term{app(name, t.S), SStr}
	case fs == SInt && ts == SStr:
		vc.declareFun("rune_str", []string{SInt}, SStr)
		return Term{app("rune_str", t.S), SStr}
	}
	vc.note("conversion %s -> %s modelled as an uninterpreted function", from, to)
	name := "conv_" + sanitize(fs) + "_" + sanitize(ts)
	vc.declareFun(name, []string{fs}, ts)
	return Term{app(name, t.S), ts}
}

func (ex *Exec) sliceInstr(fr *Frame, x *ssa.Slice, st *State) {
	vc := ex.vc
	base := ex.val(fr, st, x.X)
	var seq Term
	switch bt := x.X.Type().Underlying().(type) {
	case *types.Pointer:
		p := ex.asPtr(st, base, x.X.Type())
		seq = ex.load(st, p).T
		_ = bt
		if al, ok := x.X.(*ssa.Alloc); ok {
			// a slice of an array allocated here (what make with constant sizes and slice literals compile to)
			base.Back = &Backing{origin: fmt.Sprintf("array#%d@%d", fr.id, ex.siteOrdinal(al)), lo: Term{"0", SInt}, fresh: true}
		}
	case *types.Slice:
		seq = ex.toTerm(st, base, x.X.Type())
	case *types.Basic:
		s := ex.toTerm(st, base, x.X.Type())
		vc.declareFun("str_sub", []string{SStr, SInt, SInt}, SStr)
		lo, hi := "0", app("str_len", s.S)
		if x.Low != nil {
			lo = ex.toTerm(st, ex.val(fr, st, x.Low), nil).S
		}
		if x.High != nil {
			hi = ex.toTerm(st, ex.val(fr, st, x.High), nil).S
		}
		ex.obligation(fr, st, "nopanic", "string slice bounds in range", and(app("<=", "0", lo), app("<=", lo, hi), app("<=", hi, app("str_len", s.S))), true)
		fr.vals[x] = tv(Term{app("str_sub", s.S, lo, hi), SStr})
		return
	}
	if x.Low == nil && x.High == nil {
		r := tv(seq)
		r.Prov = base.Prov
		r.Back = base.Back
		fr.vals[x] = r
		return
	}
	lo := Term{"0", SInt}
	hi := Term{app("sq_len_"+seq.Sort, seq.S), SInt}
	if x.Low != nil {
		lo = ex.toTerm(st, ex.val(fr, st, x.Low), nil)
	}
	if x.High != nil {
		hi = ex.toTerm(st, ex.val(fr, st, x.High), nil)
	}
	ex.obligation(fr, st, "nopanic", "slice bounds in range", and(app("<=", "0", lo.S), app("<=", lo.S, hi.S), app("<=", hi.S, app("sq_len_"+seq.Sort, seq.S))), true)
	if lit, ok := vc.seqLits[seq.S]; ok {
		l, ok1 := parseSmallInt(lo.S)
		h, ok2 := parseSmallInt(hi.S)
		if ok1 && ok2 && l <= h && h <= len(lit) {
			r := tv(vc.seqLit(seq.Sort, lit[l:h]))
			if base.Back != nil {
				r.Back = &Backing{origin: base.Back.origin, lo: Term{app("+", base.Back.lo.S, lo.S), SInt}, fresh: base.Back.fresh}
			}
			fr.vals[x] = r
			return
		}
	}
	r := tv(Term{app("sq_sub_"+seq.Sort, seq.S, lo.S, hi.S), seq.Sort})
	if base.Back != nil {
		off := base.Back.lo
		if lo.S != "0" {
			off = Term{app("+", off.S, lo.S), SInt}
		}
		r.Back = &Backing{origin: base.Back.origin, lo: off, fresh: base.Back.fresh}
	}
	fr.vals[x] = r
}

// maps -----------------------------------------------------------------------

func (ex *Exec) mapHeapTerms(st *State, mt *types.Map) (dn, ds, vn, vs string, d, v Term) {
	vc := ex.vc
	dn, vn = vc.sorts.mapHeaps(mt)
	ks, es := vc.sorts.SortOf(mt.Key()), vc.sorts.SortOf(mt.Elem())
	ds = "(Array Int (Array " + ks + " Bool))"
	vs = "(Array Int (Array " + ks + " " + es + "))"
	d = vc.heapGet(st, dn, ds)
	v = vc.heapGet(st, vn, vs)
	return
}

func (ex *Exec) mapStore(st *State, mt *types.Map, m, k, v Term) {
	vc := ex.vc
	dn, ds, vn, vs, d, val := ex.mapHeapTerms(st, mt)
	vc.heapSet(st, dn, Term{app("store", d.S, m.S, app("store", app("select", d.S, m.S), k.S, "true")), ds})
	vc.heapSet(st, vn, Term{app("store", val.S, m.S, app("store", app("select", val.S, m.S), k.S, v.S)), vs})
}

func (ex *Exec) mapHas(st *State, mt *types.Map, m, k Term) string {
	_, _, _, _, d, _ := ex.mapHeapTerms(st, mt)
	return and(not(app("=", m.S, "0")), app("select", app("select", d.S, m.S), k.S))
}

func (ex *Exec) mapGet(st *State, mt *types.Map, m, k Term) Term {
	vc := ex.vc
	_, _, _, _, _, v := ex.mapHeapTerms(st, mt)
	es := vc.sorts.SortOf(mt.Elem())
	has := ex.mapHas(st, mt, m, k)
	return Term{ite(has, app("select", app("select", v.S, m.S), k.S), vc.sorts.Zero(es).S), es}
}

func (ex *Exec) lookup(fr *Frame, x *ssa.Lookup, st *State) {
	vc := ex.vc
	m := ex.toTerm(st, ex.val(fr, st, x.X), x.X.Type())
	if mt, ok := x.X.Type().Underlying().(*types.Map); ok {
		k := ex.toTerm(st, ex.val(fr, st, x.Index), mt.Key())
		v := ex.mapGet(st, mt, m, k)
		if x.CommaOk {
			fr.vals[x] = Val{K: VTuple, Tup: []Val{tv(v), tv(Term{ex.mapHas(st, mt, m, k), SBool})}}
		} else {
			fr.vals[x] = tv(v)
		}
		return
	}
	// string index
	idx := ex.toTerm(st, ex.val(fr, st, x.Index), nil)
	vc.declareFun("str_at", []string{SStr, SInt}, SInt)
	fr.vals[x] = tv(Term{app("str_at", m.S, idx.S), SInt})
}

func (ex *Exec) rangeInstr(fr *Frame, x *ssa.Range, st *State) {
	vc := ex.vc
	// iterator = fresh "visited" set
	m := ex.toTerm(st, ex.val(fr, st, x.X), x.X.Type())
	mt, ok := x.X.Type().Underlying().(*types.Map)
	if !ok {
		vc.fatalf("range over string is outside the subset (%s)", ex.where())
		return
	}
	ks := vc.sorts.SortOf(mt.Key())
	// (contracts name the set of keys a `range` over a map has already produced: visited)
	c := &Cell{id: -2, frame: fr.id, name: "visited", typ: nil, sort: "(Array " + ks + " Bool)"}
	vc.cellCtr++
	c.id = vc.cellCtr
	st.order = append(st.order, c)
	st.cells[c] = tv(Term{"((as const (Array " + ks + " Bool)) false)", c.sort})
	fr.vals[x] = Val{K: VTuple, Tup: []Val{tv(m), {K: VPtr, P: &Ptr{Kind: PCell, Cell: c}}}}
}

func (ex *Exec) nextInstr(fr *Frame, x *ssa.Next, st *State) {
	vc := ex.vc
	it := ex.val(fr, st, x.Iter)
	rng := x.Iter.(*ssa.Range)
	mt := rng.X.Type().Underlying().(*types.Map)
	m := it.Tup[0].T
	vis := it.Tup[1].P
	visited := ex.load(st, vis).T
	ks, es := vc.sorts.SortOf(mt.Key()), vc.sorts.SortOf(mt.Elem())
	ok := vc.fresh("range_ok", SBool)
	k := vc.fresh("range_k", ks)
	// ok <=> some key of the domain is not yet visited; k is such a key
	has := ex.mapHas(st, mt, m, k)
	st.assume(implies(ok.S, and(has, not(app("select", visited.S, k.S)))))
	// if !ok: every domain key is visited
	kk := "k!q"
	_, _, _, _, d, _ := ex.mapHeapTerms(st, mt)
	st.assume(implies(not(ok.S), fmt.Sprintf("(forall ((%s %s)) (! (=> (select (select %s %s) %s) (select %s %s)) :pattern ((select %s %s))))", kk, ks, d.S, m.S, kk, visited.S, kk, visited.S, kk)))
	ex.store(st, vis, tv(Term{app("store", visited.S, k.S, "true"), visited.Sort}))
	v := ex.mapGet(st, mt, m, k)
	_ = es
	fr.vals[x] = Val{K: VTuple, Tup: []Val{tv(ok), tv(k), tv(v)}}
}

// type assertions ------------------------------------------------------------

func (ex *Exec) implementers(iface *types.Interface) []types.Type {
	return ex.vc.prog.implementers(iface)
}

func (ex *Exec) typeTest(x Term, asserted types.Type) string {
	vc := ex.vc
	if it, ok := asserted.Underlying().(*types.Interface); ok {
		if it.NumMethods() == 0 {
			return not(app("=", x.S, "any_nil"))
		}
		var alts []string
		for _, t := range ex.implementers(it) {
			c := vc.sorts.AnyCtor(t)
			alts = append(alts, app("(_ is "+c.name+")", x.S))
		}
		// unknown dynamic types may implement it too: uninterpreted predicate on the tag
		name := "impl_" + sanitize(types.TypeString(asserted, func(p *types.Package) string { return p.Name() }))
		vc.declareFun(name, []string{SInt}, SBool)
		alts = append(alts, and(app("(_ is any_other)", x.S), app(name, app("any_other_tag", x.S))))
		return or(alts...)
	}
	c := vc.sorts.AnyCtor(asserted)
	return app("(_ is "+c.name+")", x.S)
}

func (ex *Exec) typeAssert(fr *Frame, x *ssa.TypeAssert, st *State) bool {
	vc := ex.vc
	v := ex.toTerm(st, ex.val(fr, st, x.X), x.X.Type())
	test := ex.typeTest(v, x.AssertedType)
	var res Term
	if _, ok := x.AssertedType.Underlying().(*types.Interface); ok {
		res = v
	} else {
		c := vc.sorts.AnyCtor(x.AssertedType)
		res = Term{app(c.sel, v.S), c.sort}
	}
	if d := vc.prog.typeDecl("typeinv", x.AssertedType); d != nil {
		// the boxed value satisfied the invariant when it was converted to an interface
		f, _ := ex.invFormula(st, d, res, x.AssertedType, false)
		st.assume(implies(test, f))
	}
	if x.CommaOk {
		zero := vc.sorts.Zero(res.Sort)
		fr.vals[x] = Val{K: VTuple, Tup: []Val{tv(Term{ite(test, res.S, zero.S), res.Sort}), tv(Term{test, SBool})}}
		return true
	}
	ex.obligation(fr, st, "nopanic", fmt.Sprintf("type assertion to %s", types.TypeString(x.AssertedType, func(p *types.Package) string { return p.Name() })), test, true)
	st.assume(test)
	fr.vals[x] = tv(res)
	return true
}

// eqTerm builds an equality, deciding constructor-vs-nil cases syntactically.
func eqTerm(a, b string) string {
	if a == b {
		return "true"
	}
	isNil := func(s string) bool { return s == "oi_none" || s == "or_none" || s == "any_nil" }
	isCtor := func(s string) bool {
		return strings.HasPrefix(s, "(oi_some ") || strings.HasPrefix(s, "(or_some ") || strings.HasPrefix(s, "(any_")
	}
	if (isNil(a) && isCtor(b)) || (isNil(b) && isCtor(a)) {
		return "false"
	}
	return app("=", a, b)
}

// sel builds a field selection, simplifying selection from a constructor.
func (vc *VC) sel(structSort, field string, base string) string {
	pre := "(mk_" + structSort + " "
	if strings.HasPrefix(base, pre) && strings.HasSuffix(base, ")") {
		args := splitSexp(base[len(pre) : len(base)-1])
		si := vc.sorts.StructInfo(structSort)
		if si != nil && len(args) == len(si.fields) {
			for i, f := range si.fields {
				if f.name == field {
					return args[i]
				}
			}
		}
	}
	return app(fieldSel(structSort, field), base)
}

func (vc *VC) ghostInitName(st *State, g, sort string) string {
	init := "ghost_" + g + "_init"
	vc.declare(init, sort)
	return init
}

// assumeIntRange: a value of a fixed-width integer type lies in that type's range (a type invariant of Go).
func (ex *Exec) assumeIntRange(st *State, t Term, ty types.Type) {
	if t.Sort != SInt {
		return
	}
	if _, ok := parseSmallInt(t.S); ok {
		return
	}
	if lo, hi, ok := intKindRange(ty); ok {
		if lo == "0" {
			st.assume(app("<=", "0", t.S))
			st.assume(app("<=", t.S, hi))
		} else {
			st.assume(and(app("<=", lo, t.S), app("<=", t.S, hi)))
		}
	}
}

var traceOn = os.Getenv("GOVC_TRACE") != ""

// opaqueEmbedded: the uninterpreted function that reads an embedded pointer field of a library struct ("" for any other
// field). Assumption: a library object keeps the embedded pointers it was built with.
func (vc *VC) opaqueEmbedded(structType types.Type, stt *types.Struct, field int) string {
	f := stt.Field(field)
	if !f.Embedded() {
		return ""
	}
	if _, ok := f.Type().Underlying().(*types.Pointer); !ok {
		return ""
	}
	if vc.sorts.SortOf(f.Type()) != SRef {
		return ""
	}
	nt, ok := types.Unalias(structType).(*types.Named)
	if !ok {
		return ""
	}
	fn := "opqf_" + shortTypeName(nt) + "_" + f.Name()
	vc.declareFun(fn, []string{SRef}, SRef)
	vc.usedExt["library struct "+shortTypeName(nt)+": the embedded pointer "+f.Name()+" does not change once the object is built (assumed)"] = true
	return fn
}
