package main

// Translation of contract expressions into SMT terms, in a symbolic state.

import (
	"strconv"
	"fmt"
	"go/constant"
	"go/types"
	"strings"

	"golang.org/x/tools/go/ssa"
)

type TVal struct {
	T  Term
	Ty types.Type // Go type when known (nil for pure spec values)
	// spec-level container info
	ElemSort string // sets/maps declared as ghost
	KeySort  string
	Kind     string // "", "set", "gmap"
}

type Env struct {
	ex       *Exec
	st       *State
	old      *State
	binds    map[string]TVal
	params   map[string]TVal
	oldBinds map[string]TVal // values of in-place parameters in the pre-state (used under old())
	pkg      *types.Package
	useCells bool
	noAlias  bool
	calleeFn *ssa.Function // contract applied at a call site: the callee (for renamed parameters)
	fr       *Frame
	errs     []string
	ground   bool // stays true while no quantifier/fold was used
	goal     bool // translating a formula to be proved (else: to be assumed)
	neg      bool // under an odd number of negations
	depth    int
}

func (ex *Exec) newEnv(st, old *State, pkg *types.Package, fr *Frame) *Env {
	return &Env{ex: ex, st: st, old: old, binds: map[string]TVal{}, params: map[string]TVal{}, pkg: pkg, fr: fr, ground: true}
}

func (e *Env) errf(format string, a ...any) TVal {
	e.errs = append(e.errs, fmt.Sprintf(format, a...))
	return TVal{T: Term{"false", SBool}}
}

func (e *Env) sub() *Env {
	n := *e
	n.binds = make(map[string]TVal, len(e.binds))
	for k, v := range e.binds {
		n.binds[k] = v
	}
	return &n
}

// resolveType parses a type text in the scope of the contract's package.
func (e *Env) resolveType(text string) (types.Type, string) {
	vc := e.ex.vc
	text = strings.TrimSpace(text)
	if strings.HasPrefix(text, "typeof(") && strings.HasSuffix(text, ")") {
		// the Go type of a name in scope (needed for instantiated generic types)
		sub := e.sub()
		sub.errs = nil
		v := sub.ident(text[7 : len(text)-1])
		if len(sub.errs) == 0 && v.Ty != nil {
			return v.Ty, vc.sorts.SortOf(v.Ty)
		}
		return nil, ""
	}
	switch text {
	case "int":
		return types.Typ[types.Int], SInt
	case "bool":
		return types.Typ[types.Bool], SBool
	case "string":
		return types.Typ[types.String], SStr
	case "any":
		return types.NewInterfaceType(nil, nil), SAny
	case "error":
		return types.Universe.Lookup("error").Type(), SAny
	case "byte", "int64", "int32", "int16", "int8", "uint", "uint64", "uint32", "uint16", "uint8", "float64", "rune":
		if o := types.Universe.Lookup(text); o != nil {
			return o.Type(), vc.sorts.SortOf(o.Type())
		}
	case "struct{}":
		t := types.NewStruct(nil, nil)
		return t, vc.sorts.SortOf(t)
	case "ref":
		return nil, SRef
	case "real":
		return nil, SReal
	}
	if strings.HasPrefix(text, "[]") {
		t, _ := e.resolveType(text[2:])
		if t == nil {
			return nil, ""
		}
		st := types.NewSlice(t)
		return st, vc.sorts.SortOf(st)
	}
	if strings.HasPrefix(text, "*") {
		t, _ := e.resolveType(text[1:])
		if t == nil {
			return nil, ""
		}
		pt := types.NewPointer(t)
		return pt, vc.sorts.SortOf(pt)
	}
	if strings.HasPrefix(text, "map[") {
		d := 0
		for i := 3; i < len(text); i++ {
			if text[i] == '[' {
				d++
			}
			if text[i] == ']' {
				d--
				if d == 0 {
					k, _ := e.resolveType(text[4:i])
					v, _ := e.resolveType(text[i+1:])
					if k == nil || v == nil {
						return nil, ""
					}
					mt := types.NewMap(k, v)
					return mt, vc.sorts.SortOf(mt)
				}
			}
		}
	}
	var obj types.Object
	if i := strings.Index(text, "."); i >= 0 {
		pn, tn := text[:i], text[i+1:]
		if p := vc.prog.pkgByName(pn); p != nil {
			obj = p.Scope().Lookup(tn)
		}
	} else if e.pkg != nil {
		obj = e.pkg.Scope().Lookup(text)
	}
	if obj == nil {
		// search all loaded repo packages
		for _, p := range vc.prog.allPkgs {
			if o := p.Types.Scope().Lookup(text); o != nil {
				if _, ok := o.(*types.TypeName); ok {
					obj = o
					break
				}
			}
		}
	}
	if tn, ok := obj.(*types.TypeName); ok {
		return tn.Type(), vc.sorts.SortOf(tn.Type())
	}
	return nil, ""
}

func (e *Env) ghostSort(g *GhostDecl) (sort, kind, ks, es string) {
	t := strings.TrimSpace(g.Type)
	switch {
	case strings.HasPrefix(t, "set["):
		_, s := e.resolveType(t[4 : len(t)-1])
		if s == "" {
			return "", "", "", ""
		}
		return "(Array " + s + " Bool)", "set", s, SBool
	case strings.HasPrefix(t, "map["):
		d := 0
		for i := 3; i < len(t); i++ {
			if t[i] == '[' {
				d++
			}
			if t[i] == ']' {
				d--
				if d == 0 {
					_, k := e.resolveType(t[4:i])
					_, v := e.resolveType(t[i+1:])
					if k == "" || v == "" {
						// a type of a package that is not part of this load: the ghost does not exist here
						return "", "", "", ""
					}
					return "(Array " + k + " " + v + ")", "gmap", k, v
				}
			}
		}
	case strings.HasPrefix(t, "seq["):
		ty, _ := e.resolveType(t[4 : len(t)-1])
		if ty != nil {
			s := e.ex.vc.sorts.SortOf(types.NewSlice(ty))
			return s, "", "", ""
		}
	}
	_, s := e.resolveType(t)
	return s, "", "", ""
}

func (e *Env) ghostVal(name string, st *State) (TVal, bool) {
	vc := e.ex.vc
	g, ok := vc.prog.contracts.Ghosts[name]
	if !ok {
		return TVal{}, false
	}
	sort, kind, ks, es := e.ghostSort(g)
	if sort == "" {
		return e.errf("ghost %s: unknown type %s", name, g.Type), true
	}
	var ty types.Type
	if strings.HasPrefix(g.Type, "seq[") {
		t, _ := e.resolveType(g.Type[4 : len(g.Type)-1])
		ty = types.NewSlice(t)
	} else if kind == "" {
		ty, _ = e.resolveType(g.Type)
	}
	if t, ok := st.ghost[name]; ok {
		return TVal{T: t, Ty: ty, Kind: kind, KeySort: ks, ElemSort: es}, true
	}
	init := "ghost_" + name + "_init"
	vc.declare(init, sort)
	return TVal{T: Term{init, sort}, Ty: ty, Kind: kind, KeySort: ks, ElemSort: es}, true
}

func (e *Env) ident(name string) TVal {
	vc := e.ex.vc
	if v, ok := e.binds[name]; ok {
		return v
	}
	if e.useCells {
		if c := e.st.cellByName(name, e.frameID()); c != nil {
			v := e.ex.load(e.st, &Ptr{Kind: PCell, Cell: c, Typ: c.typ})
			if v.K == VTerm {
				return TVal{T: v.T, Ty: c.typ}
			}
			if v.K == VPtr {
				return TVal{T: e.ex.materialize(e.st, v.P), Ty: c.typ}
			}
			return e.errf("local %s is not a term value", name)
		}
		for i := len(e.st.named) - 1; i >= 0; i-- {
			nr := e.st.named[i]
			if nr.name == name && (e.frameID() == 0 || nr.frame == e.frameID()) {
				// a named local struct that lives on the heap: the name denotes the struct
				return TVal{T: nr.ref, Ty: nr.typ}
			}
		}
	}
	if v, ok := e.params[name]; ok {
		return v
	}
	if v, ok := e.ghostVal(name, e.st); ok {
		return v
	}
	// package-level objects
	var obj types.Object
	if e.pkg != nil {
		obj = e.pkg.Scope().Lookup(name)
	}
	if obj != nil {
		switch o := obj.(type) {
		case *types.Const:
			return e.constVal(o)
		case *types.Var:
			if sp := vc.prog.ssaPkg(e.pkg); sp != nil {
				if g, ok := sp.Members[name].(*ssa.Global); ok {
					return TVal{T: e.ex.globalTerm(e.st, g), Ty: o.Type()}
				}
			}
		}
	}
	// a local that was renamed since the contracts were pinned: same type, same position among the
	// function's locals of that type (a proof hint may name the wrong variable; what is proved stays proved)
	if !e.noAlias {
		fn := e.calleeFn
		if fn == nil && e.fr != nil {
			fn = e.fr.fn
		}
		if fn == nil {
			return e.errf("unknown identifier %q", name)
		}
		if nn := vc.prog.renamedLocal(fn, name); nn != "" && nn != name {
			sub := *e
			sub.noAlias = true
			vc.note("contract of %s: %q no longer exists; read as %q (same type and position when the contracts were pinned)", vc.prog.funcName(fn), name, nn)
			r := sub.ident(nn)
			e.errs = sub.errs
			// a range loop turned into an index loop or the reverse: the hidden index of a range loop is the index of
			// the last element processed, an explicit index variable (initialised to 0) that of the next one
			if r.T.Sort == SInt && len(sub.errs) == 0 {
				if name == "rangeindex" && nn != "rangeindex" {
					r.T = Term{app("-", r.T.S, "1"), SInt}
				} else if nn == "rangeindex" && name != "rangeindex" {
					r.T = Term{app("+", r.T.S, "1"), SInt}
				}
			}
			return r
		}
	}
	return e.errf("unknown identifier %q", name)
}

func (e *Env) constVal(o *types.Const) TVal {
	vc := e.ex.vc
	switch o.Val().Kind() {
	case constant.Int:
		s := o.Val().ExactString()
		if strings.HasPrefix(s, "-") {
			s = "(- " + s[1:] + ")"
		}
		return TVal{T: Term{s, SInt}, Ty: o.Type()}
	case constant.String:
		return TVal{T: vc.strLit(constant.StringVal(o.Val())), Ty: o.Type()}
	case constant.Bool:
		return TVal{T: Term{fmt.Sprint(constant.BoolVal(o.Val())), SBool}, Ty: o.Type()}
	}
	return e.errf("unsupported constant %s", o.Name())
}

func (e *Env) Bool(x Expr) string {
	v := e.tr(x)
	if v.T.Sort != SBool && len(e.errs) == 0 {
		e.errf("expression %s is not boolean (sort %s)", exprString(x), v.T.Sort)
	}
	return v.T.S
}

func derefStruct(t types.Type) (*types.Struct, types.Type, bool) {
	if t == nil {
		return nil, nil, false
	}
	if p, ok := t.Underlying().(*types.Pointer); ok {
		if s, ok := p.Elem().Underlying().(*types.Struct); ok {
			return s, p.Elem(), true
		}
	}
	return nil, nil, false
}

func (e *Env) tr(x Expr) TVal {
	vc := e.ex.vc
	switch n := x.(type) {
	case EIdent:
		return e.ident(n.Name)
	case EInt:
		return TVal{T: Term{n.V, SInt}, Ty: types.Typ[types.Int]}
	case EStr:
		return TVal{T: vc.strLit(n.V), Ty: types.Typ[types.String]}
	case EBool:
		return TVal{T: Term{fmt.Sprint(n.V), SBool}, Ty: types.Typ[types.Bool]}
	case ENil:
		return TVal{T: Term{"nil", "Nil"}}
	case EUnary:
		if n.Op == "!" {
			e.neg = !e.neg
			v := e.tr(n.X)
			e.neg = !e.neg
			return TVal{T: Term{not(v.T.S), SBool}, Ty: v.Ty}
		}
		v := e.tr(n.X)
		return TVal{T: Term{app("-", v.T.S), v.T.Sort}, Ty: v.Ty}
	case EBinary:
		return e.binary(n)
	case EField:
		return e.field(n)
	case EIndex:
		b := e.tr(n.X)
		i := e.tr(n.I)
		if b.Kind == "gmap" {
			return TVal{T: Term{app("select", b.T.S, i.T.S), b.ElemSort}}
		}
		if b.Kind == "set" {
			return TVal{T: Term{app("select", b.T.S, i.T.S), SBool}}
		}
		if b.Ty != nil {
			if mt, ok := b.Ty.Underlying().(*types.Map); ok {
				return TVal{T: e.ex.mapGet(e.st, mt, b.T, i.T), Ty: mt.Elem()}
			}
		}
		if strings.HasPrefix(b.T.Sort, "Seq_") {
			var et types.Type
			if b.Ty != nil {
				switch u := b.Ty.Underlying().(type) {
				case *types.Slice:
					et = u.Elem()
				case *types.Array:
					et = u.Elem()
				}
			}
			return TVal{T: vc.readPath(b.T, []Step{{Idx: i.T, SeqSort: b.T.Sort}}), Ty: et}
		}
		return e.errf("cannot index %s", exprString(n.X))
	case ESlice:
		b := e.tr(n.X)
		if !strings.HasPrefix(b.T.Sort, "Seq_") {
			return e.errf("cannot slice %s", exprString(n.X))
		}
		lo, hi := "0", app("sq_len_"+b.T.Sort, b.T.S)
		if n.Lo != nil {
			lo = e.tr(n.Lo).T.S
		}
		if n.Hi != nil {
			hi = e.tr(n.Hi).T.S
		}
		return TVal{T: Term{app("sq_sub_"+b.T.Sort, b.T.S, lo, hi), b.T.Sort}, Ty: b.Ty}
	case ECall:
		return e.call(n)
	case EQuant:
		return e.quant(n)
	}
	return e.errf("unsupported expression")
}

func (e *Env) field(n EField) TVal {
	vc := e.ex.vc
	// qualified identifier pkg.Name
	if id, ok := n.X.(EIdent); ok {
		_, bound := e.binds[id.Name]
		_, isParam := e.params[id.Name]
		isCell := e.useCells && e.st.cellByName(id.Name, e.frameID()) != nil
		if !bound && !isParam && !isCell {
			if _, isGhost := vc.prog.contracts.Ghosts[id.Name]; !isGhost {
				if tp := vc.prog.pkgByName(id.Name); tp != nil {
					obj := tp.Scope().Lookup(n.Name)
					switch o := obj.(type) {
					case *types.Const:
						return e.constVal(o)
					case *types.Var:
						if sp := vc.prog.ssaPkg(tp); sp != nil {
							if g, ok := sp.Members[n.Name].(*ssa.Global); ok {
								return TVal{T: e.ex.globalTerm(e.st, g), Ty: o.Type()}
							}
						}
					}
					return e.errf("unknown object %s.%s", id.Name, n.Name)
				}
			}
		}
	}
	b := e.tr(n.X)
	if b.Ty == nil {
		return e.errf("field %s of a value without Go type (%s)", n.Name, exprString(n.X))
	}
	if stt, et, ok := derefStruct(b.Ty); ok {
		ss := vc.sorts.SortOf(et)
		if _, isS := vc.sorts.structs[ss]; !isS {
			for i := 0; i < stt.NumFields(); i++ {
				if stt.Field(i).Name() == n.Name {
					if fn := vc.opaqueEmbedded(et, stt, i); fn != "" && b.T.Sort == SRef {
						return TVal{T: Term{app(fn, b.T.S), SRef}, Ty: stt.Field(i).Type()}
					}
				}
			}
			return e.errf("pointer to opaque struct %s", et)
		}
		for i := 0; i < stt.NumFields(); i++ {
			if stt.Field(i).Name() == n.Name {
				return TVal{T: vc.readField(e.st, b.T, ss, n.Name), Ty: stt.Field(i).Type()}
			}
		}
		// promoted through embedded fields
		for i := 0; i < stt.NumFields(); i++ {
			if stt.Field(i).Embedded() {
				inner := EField{X: EField{X: n.X, Name: stt.Field(i).Name()}, Name: n.Name}
				sub := e.sub()
				sub.errs = nil
				r := sub.field(inner)
				if len(sub.errs) == 0 {
					return r
				}
			}
		}
		return e.errf("no field %s in %s", n.Name, et)
	}
	if stt, ok := b.Ty.Underlying().(*types.Struct); ok {
		ss := vc.sorts.SortOf(b.Ty)
		if _, isS := vc.sorts.structs[ss]; !isS {
			return e.errf("field of opaque struct %s", b.Ty)
		}
		for i := 0; i < stt.NumFields(); i++ {
			if stt.Field(i).Name() == n.Name {
				return TVal{T: Term{vc.sel(ss, n.Name, b.T.S), vc.sorts.SortOf(stt.Field(i).Type())}, Ty: stt.Field(i).Type()}
			}
		}
		return e.errf("no field %s in %s", n.Name, b.Ty)
	}
	return e.errf("field %s of non-struct %s", n.Name, b.Ty)
}

func (e *Env) nilOf(sort string) string {
	vc := e.ex.vc
	if strings.HasPrefix(sort, "Seq_") {
		return "sq_empty_" + sort
	}
	return vc.sorts.Zero(sort).S
}

func (e *Env) seqEq(a, b Term, positive bool) string {
	if !positive {
		return app("=", a.S, b.S)
	}
	// extensional equality (goal position)
	e.ex.vc.counter++
	i := fmt.Sprintf("i!e%d", e.ex.vc.counter)
	S := a.Sort
	return or(app("=", a.S, b.S),
		and(app("=", app("sq_len_"+S, a.S), app("sq_len_"+S, b.S)),
			fmt.Sprintf("(forall ((%s Int)) (=> (and (<= 0 %s) (< %s (sq_len_%s %s))) (= (sq_at_%s %s %s) (sq_at_%s %s %s))))", i, i, i, S, a.S, S, a.S, i, S, b.S, i)))
}

func (e *Env) binary(n EBinary) TVal {
	switch n.Op {
	case "&&":
		return TVal{T: Term{and(e.Bool(n.X), e.Bool(n.Y)), SBool}}
	case "||":
		return TVal{T: Term{or(e.Bool(n.X), e.Bool(n.Y)), SBool}}
	case "==>":
		e.neg = !e.neg
		lhs := e.Bool(n.X)
		e.neg = !e.neg
		if lhs == "false" {
			return TVal{T: Term{"true", SBool}}
		}
		return TVal{T: Term{implies(lhs, e.Bool(n.Y)), SBool}}
	case "<==>":
		return TVal{T: Term{app("=", e.Bool(n.X), e.Bool(n.Y)), SBool}}
	}
	a := e.tr(n.X)
	b := e.tr(n.Y)
	if a.T.Sort == "Nil" && b.T.Sort != "Nil" {
		a.T = Term{e.nilOf(b.T.Sort), b.T.Sort}
	}
	if b.T.Sort == "Nil" && a.T.Sort != "Nil" {
		b.T = Term{e.nilOf(a.T.Sort), a.T.Sort}
	}
	switch n.Op {
	case "==", "!=":
		if a.T.Sort != b.T.Sort {
			return e.errf("comparison of different sorts %s and %s in %s", a.T.Sort, b.T.Sort, exprString(n))
		}
		var eq string
		if strings.HasPrefix(a.T.Sort, "Seq_") {
			e.ground = false
			proving := e.goal != e.neg // is this atom (as written) something to establish?
			if n.Op == "!=" {
				proving = !proving
			}
			eq = e.seqEq(a.T, b.T, proving)
		} else {
			eq = app("=", a.T.S, b.T.S)
			// two integer literals: decided here (keeps rules like `instruction == OP_X ==> ...` out of the query
			// when the instruction is a constant)
			if x, ok1 := parseSmallInt(a.T.S); ok1 {
				if y, ok2 := parseSmallInt(b.T.S); ok2 {
					eq = "false"
					if x == y {
						eq = "true"
					}
				}
			}
		}
		if n.Op == "!=" {
			eq = not(eq)
		}
		return TVal{T: Term{eq, SBool}}
	case "<", "<=", ">", ">=":
		return TVal{T: Term{app(n.Op, a.T.S, b.T.S), SBool}}
	case "+":
		if a.T.Sort == SStr {
			return TVal{T: Term{app("str_cat", a.T.S, b.T.S), SStr}, Ty: a.Ty}
		}
		if strings.HasPrefix(a.T.Sort, "Seq_") {
			return TVal{T: Term{app("sq_concat_"+a.T.Sort, a.T.S, b.T.S), a.T.Sort}, Ty: a.Ty}
		}
		return TVal{T: Term{app("+", a.T.S, b.T.S), a.T.Sort}, Ty: a.Ty}
	case "-":
		return TVal{T: Term{app("-", a.T.S, b.T.S), a.T.Sort}, Ty: a.Ty}
	case "*":
		_, ok1 := parseSmallInt(a.T.S)
		_, ok2 := parseSmallInt(b.T.S)
		if a.T.Sort == SInt && !ok1 && !ok2 {
			return TVal{T: Term{app("imul", a.T.S, b.T.S), SInt}, Ty: a.Ty}
		}
		return TVal{T: Term{app("*", a.T.S, b.T.S), a.T.Sort}, Ty: a.Ty}
	case "/":
		if a.T.Sort == SInt {
			return TVal{T: Term{app("div", a.T.S, b.T.S), SInt}, Ty: a.Ty}
		}
		return TVal{T: Term{app("/", a.T.S, b.T.S), a.T.Sort}, Ty: a.Ty}
	case "%":
		return TVal{T: Term{app("mod", a.T.S, b.T.S), SInt}, Ty: a.Ty}
	}
	return e.errf("unknown operator %s", n.Op)
}

func (e *Env) quant(n EQuant) TVal {
	e.ground = false
	sub := e.sub()
	var decls []string
	var guard []string
	for _, v := range n.Vars {
		ty, s := e.resolveType(v.Type)
		if s == "" {
			return e.errf("unknown type %q in quantifier", v.Type)
		}
		e.ex.vc.counter++
		name := fmt.Sprintf("%s!q%d", sanitize(v.Name), e.ex.vc.counter)
		decls = append(decls, fmt.Sprintf("(%s %s)", name, s))
		sub.binds[v.Name] = TVal{T: Term{name, s}, Ty: ty}
		if n.Lo != nil {
			lo, hi := e.tr(n.Lo), e.tr(n.Hi)
			guard = append(guard, app("<=", lo.T.S, name), app("<", name, hi.T.S))
		}
	}
	body := sub.Bool(n.Body)
	e.errs = append(e.errs, sub.errs[len(e.errs):]...)
	q := "exists"
	if n.Forall {
		q = "forall"
		if len(guard) > 0 {
			body = implies(and(guard...), body)
		}
	} else if len(guard) > 0 {
		body = and(append(guard, body)...)
	}
	// explicit instantiation trigger: a universal goal is proved at skolem
	// constants marked by qt_<sorts>; universal assumptions fire on that mark.
	var qsorts, qnames []string
	for _, v := range n.Vars {
		tv := sub.binds[v.Name]
		qsorts = append(qsorts, tv.T.Sort)
		qnames = append(qnames, tv.T.S)
	}
	qt := "qt"
	for _, s := range qsorts {
		qt += "_" + sanitize(s)
	}
	e.ex.vc.declareFun(qt, qsorts, SBool)
	mark := app(qt, qnames...)
	using := e.goal == e.neg // assumption in positive position, or goal in negative position
	if n.Forall && using {
		plain := fmt.Sprintf("(forall (%s) %s)", strings.Join(decls, " "), body)
		trig := fmt.Sprintf("(forall (%s) (! %s :pattern (%s)))", strings.Join(decls, " "), body, mark)
		return TVal{T: Term{and(plain, trig), SBool}}
	}
	if n.Forall && !using {
		return TVal{T: Term{fmt.Sprintf("(forall (%s) (=> %s %s))", strings.Join(decls, " "), mark, body), SBool}}
	}
	if !n.Forall && using {
		// an existential we may use: mark its witness
		return TVal{T: Term{fmt.Sprintf("(exists (%s) (and %s %s))", strings.Join(decls, " "), mark, body), SBool}}
	}
	return TVal{T: Term{fmt.Sprintf("(%s (%s) %s)", q, strings.Join(decls, " "), body), SBool}}
}

func (e *Env) call(n ECall) TVal {
	vc := e.ex.vc
	argc := func(k int) bool {
		if len(n.Args) != k {
			e.errf("%s expects %d arguments", n.Fun, k)
			return false
		}
		return true
	}
	switch n.Fun {
	case "old":
		if !argc(1) {
			return TVal{}
		}
		if e.old == nil {
			return e.errf("old() not available here")
		}
		sub := e.sub()
		sub.st = e.old
		sub.useCells = false
		for k, v := range e.oldBinds {
			sub.binds[k] = v
		}
		if e.fr != nil && len(e.fr.fn.FreeVars) > 0 {
			// captured variables are locations: old(x) is their content in the old state
			sub.params = make(map[string]TVal, len(e.params))
			for k, v := range e.params {
				sub.params[k] = v
			}
			for i, fv := range e.fr.fn.FreeVars {
				if _, bound := e.params[fv.Name()]; !bound || i >= len(e.fr.free) || e.fr.free[i].K != VPtr {
					continue
				}
				if p := e.fr.free[i].P; p.Kind == PCell {
					if _, ok := e.old.cells[p.Cell]; !ok && !p.Cell.boxed {
						continue
					}
				}
				v := e.ex.load(e.old, e.fr.free[i].P)
				et := fv.Type().(*types.Pointer).Elem()
				if v.K == VTerm {
					sub.params[fv.Name()] = TVal{T: v.T, Ty: et}
				} else if v.K == VPtr {
					sub.params[fv.Name()] = TVal{T: e.ex.materialize(e.old, v.P), Ty: et}
				}
			}
		}
		r := sub.tr(n.Args[0])
		e.errs = append(e.errs, sub.errs[len(e.errs):]...)
		if !sub.ground {
			e.ground = false
		}
		return r
	case "len":
		if !argc(1) {
			return TVal{}
		}
		a := e.tr(n.Args[0])
		if strings.HasPrefix(a.T.Sort, "Seq_") {
			return TVal{T: Term{app("sq_len_"+a.T.Sort, a.T.S), SInt}, Ty: types.Typ[types.Int]}
		}
		if a.T.Sort == SStr {
			return TVal{T: Term{app("str_len", a.T.S), SInt}, Ty: types.Typ[types.Int]}
		}
		return e.errf("len of %s", a.T.Sort)
	case "val":
		if !argc(1) {
			return TVal{}
		}
		a := e.tr(n.Args[0])
		switch a.T.Sort {
		case SOptInt:
			return TVal{T: Term{app("oi_val", a.T.S), SInt}}
		case SOptRat:
			return TVal{T: Term{app("or_val", a.T.S), SReal}}
		case SInt, SReal:
			return TVal{T: a.T}
		}
		return e.errf("val of %s", a.T.Sort)
	case "some":
		if !argc(1) {
			return TVal{}
		}
		a := e.tr(n.Args[0])
		if a.T.Sort == SReal {
			return TVal{T: Term{app("or_some", a.T.S), SOptRat}}
		}
		return TVal{T: Term{app("oi_some", a.T.S), SOptInt}}
	case "ite":
		if !argc(3) {
			return TVal{}
		}
		c := e.Bool(n.Args[0])
		if c == "true" {
			return e.tr(n.Args[1])
		}
		if c == "false" {
			return e.tr(n.Args[2])
		}
		a, b := e.tr(n.Args[1]), e.tr(n.Args[2])
		return TVal{T: Term{ite(c, a.T.S, b.T.S), a.T.Sort}, Ty: a.Ty}
	case "max", "min":
		if !argc(2) {
			return TVal{}
		}
		a, b := e.tr(n.Args[0]), e.tr(n.Args[1])
		op := ">="
		if n.Fun == "min" {
			op = "<="
		}
		return TVal{T: Term{ite(app(op, a.T.S, b.T.S), a.T.S, b.T.S), a.T.Sort}}
	case "has":
		if !argc(2) {
			return TVal{}
		}
		m, k := e.tr(n.Args[0]), e.tr(n.Args[1])
		if m.Kind == "set" {
			return TVal{T: Term{app("select", m.T.S, k.T.S), SBool}}
		}
		if m.Ty != nil {
			if mt, ok := m.Ty.Underlying().(*types.Map); ok {
				return TVal{T: Term{e.ex.mapHas(e.st, mt, m.T, k.T), SBool}}
			}
		}
		return e.errf("has() on a non-map")
	case "in":
		if !argc(2) {
			return TVal{}
		}
		k, s := e.tr(n.Args[0]), e.tr(n.Args[1])
		return TVal{T: Term{app("select", s.T.S, k.T.S), SBool}}
	case "add", "remove":
		if !argc(2) {
			return TVal{}
		}
		s, k := e.tr(n.Args[0]), e.tr(n.Args[1])
		b := "true"
		if n.Fun == "remove" {
			b = "false"
		}
		r := s
		r.T = Term{app("store", s.T.S, k.T.S, b), s.T.Sort}
		return r
	case "put":
		if !argc(3) {
			return TVal{}
		}
		s, k, v := e.tr(n.Args[0]), e.tr(n.Args[1]), e.tr(n.Args[2])
		r := s
		r.T = Term{app("store", s.T.S, k.T.S, v.T.S), s.T.Sort}
		return r
	case "snoc":
		if !argc(2) {
			return TVal{}
		}
		s, k := e.tr(n.Args[0]), e.tr(n.Args[1])
		return TVal{T: Term{app("sq_snoc_"+s.T.Sort, s.T.S, k.T.S), s.T.Sort}, Ty: s.Ty}
	case "local":
		// local(name): the current value of a local variable of the calling function (scoped requires only)
		if !argc(1) {
			return TVal{}
		}
		if id, ok := n.Args[0].(EIdent); ok {
			sub := e.sub()
			sub.useCells = true
			sub.binds = map[string]TVal{}
			sub.params = map[string]TVal{}
			sub.calleeFn = nil
			sub.errs = nil
			r := sub.ident(id.Name)
			if len(sub.errs) > 0 {
				return e.errf("local(%s): %s", id.Name, strings.Join(sub.errs, "; "))
			}
			return r
		}
		return e.errf("local needs an identifier")
	case "captured":
		// captured(name): the current value of the variable `name` of an enclosing function that the closure being executed
		// captures (scoped requires in a closure: ties what the closure uses to what the function that built it was given;
		// a parameter or local of the closure that merely has the same name does not qualify)
		if !argc(1) {
			return TVal{}
		}
		if id, ok := n.Args[0].(EIdent); ok && e.fr != nil {
			for i, fv := range e.fr.fn.FreeVars {
				if fv.Name() != id.Name || i >= len(e.fr.free) {
					continue
				}
				v := e.fr.free[i]
				if pt, ok := fv.Type().Underlying().(*types.Pointer); ok && v.K == VPtr {
					lv := e.ex.load(e.st, v.P)
					return TVal{T: e.ex.toTerm(e.st, lv, pt.Elem()), Ty: pt.Elem()}
				}
				return TVal{T: e.ex.toTerm(e.st, v, fv.Type()), Ty: fv.Type()}
			}
			return e.errf("captured(%s): %s captures no variable of that name", id.Name, e.fr.fn.Name())
		}
		return e.errf("captured needs an identifier")
	case "param":
		// param(i): the i-th parameter (receiver not counted) of the calling function, whatever it is named there
		// (scoped requires: ties what a method does to the roles its interface gives the parameters by position)
		if !argc(1) {
			return TVal{}
		}
		if lit, ok := n.Args[0].(EInt); ok && e.fr != nil {
			i, _ := strconv.Atoi(lit.V)
			fn := e.fr.fn
			if fn.Signature.Recv() != nil {
				i++
			}
			if i < 0 || i >= len(fn.Params) || i >= len(e.fr.params) {
				return e.errf("param(%s): %s has no such parameter", lit.V, fn.Name())
			}
			pv := e.fr.params[i]
			ty := fn.Params[i].Type()
			return TVal{T: e.ex.toTerm(e.st, pv, ty), Ty: ty}
		}
		return e.errf("param needs an integer literal")
	case "allocated":
		// allocated(x): the object x designates exists already (it was not allocated after this point)
		if !argc(1) {
			return TVal{}
		}
		{
			a := e.tr(n.Args[0])
			if e.st.allocTop.S == "" {
				return TVal{T: Term{"true", SBool}}
			}
			return TVal{T: Term{app("<=", a.T.S, e.st.allocTop.S), SBool}}
		}
	case "bytes":
		// bytes(s): the conversion []byte(s) (same symbol the executor uses)
		if !argc(1) {
			return TVal{}
		}
		{
			a := e.tr(n.Args[0])
			ts := vc.sorts.SortOf(types.NewSlice(types.Typ[types.Byte]))
			vc.declareFun("str_bytes", []string{SStr}, ts)
			return TVal{T: Term{app("str_bytes", a.T.S), ts}, Ty: types.NewSlice(types.Typ[types.Byte])}
		}
	case "fresh":
		// fresh(x): the object x designates did not exist when the function under verification was entered
		if !argc(1) {
			return TVal{}
		}
		{
			a := e.tr(n.Args[0])
			entry := vc.entry // of the function under verification, also inside inlined callees
			if entry == nil || entry.allocTop.S == "" {
				return e.errf("fresh: no allocation frontier at function entry here")
			}
			f := app(">", a.T.S, entry.allocTop.S)
			for _, o := range vc.owned {
				f = or(f, app("=", a.T.S, o))
			}
			return TVal{T: Term{f, SBool}}
		}
	case "pristine":
		// pristine(v): v is an interface holding a pointer; what it points to is the zero value of its type
		// (a decoder writes into it: nothing of an earlier use may be left)
		if !argc(1) {
			return TVal{}
		}
		{
			a := e.tr(n.Args[0])
			for _, key := range vc.sorts.anyOrder {
				c := vc.sorts.anyCtors[key]
				pre := "(" + c.name + " "
				if !strings.HasPrefix(a.T.S, pre) || !strings.HasSuffix(a.T.S, ")") {
					continue
				}
				pt, ok := c.typ.Underlying().(*types.Pointer)
				if !ok {
					return e.errf("pristine: %s is not a pointer", types.TypeString(c.typ, nil))
				}
				if _, isIface := pt.Elem().Underlying().(*types.Interface); isIface {
					// decoding into an interface variable: its previous content is only a type hint
					return TVal{T: Term{"true", SBool}}
				}
				ref := Term{a.T.S[len(pre) : len(a.T.S)-1], SRef}
				es := vc.sorts.SortOf(pt.Elem())
				var cur Term
				if _, isS := vc.sorts.structs[es]; isS {
					cur = vc.readStruct(e.st, ref, es)
				} else {
					hn, hs := vc.boxHeap(es)
					cur = Term{app("select", vc.heapGet(e.st, hn, hs).S, ref.S), es}
				}
				return TVal{T: Term{app("=", cur.S, vc.sorts.Zero(es).S), SBool}}
			}
			return e.errf("pristine: the target %s is not a statically known pointer", a.T.S)
		}
	case "concat":
		if !argc(2) {
			return TVal{}
		}
		{
			s, k := e.tr(n.Args[0]), e.tr(n.Args[1])
			if s.T.Sort != k.T.Sort || !strings.HasPrefix(s.T.Sort, "Seq_") {
				return e.errf("concat of %s and %s", s.T.Sort, k.T.Sort)
			}
			return TVal{T: Term{app("sq_concat_"+s.T.Sort, s.T.S, k.T.S), s.T.Sort}, Ty: s.Ty}
		}
	case "rev":
		if !argc(1) {
			return TVal{}
		}
		s := e.tr(n.Args[0])
		return TVal{T: Term{app("sq_rev_"+s.T.Sort, s.T.S), s.T.Sort}, Ty: s.Ty}
	case "typeis":
		// typeis(x, "pkg.T") or typeis(x, "*pkg.T")
		if !argc(2) {
			return TVal{}
		}
		x := e.tr(n.Args[0])
		s, ok := n.Args[1].(EStr)
		if !ok {
			return e.errf("typeis needs a string literal")
		}
		ty, _ := e.resolveType(s.V)
		if ty == nil {
			return e.errf("typeis: unknown type %s", s.V)
		}
		return TVal{T: Term{e.ex.typeTest(x.T, ty), SBool}}
	case "dynptr":
		// dynptr(x): the dynamic type of the interface value x is a pointer type (one of the pointer types boxed so far)
		if !argc(1) {
			return TVal{}
		}
		x := e.tr(n.Args[0])
		if x.T.Sort != SAny {
			return e.errf("dynptr of a non-interface value")
		}
		var alts []string
		for _, key := range vc.sorts.anyOrder {
			c := vc.sorts.anyCtors[key]
			if _, ok := c.typ.Underlying().(*types.Pointer); ok {
				alts = append(alts, app("(_ is "+c.name+")", x.T.S))
			}
		}
		if len(alts) == 0 {
			return TVal{T: Term{"false", SBool}}
		}
		return TVal{T: Term{or(alts...), SBool}}
	case "as":
		// as(x, "pkg.T"): payload of an interface value
		if !argc(2) {
			return TVal{}
		}
		x := e.tr(n.Args[0])
		s, ok := n.Args[1].(EStr)
		if !ok {
			return e.errf("as needs a string literal")
		}
		ty, _ := e.resolveType(s.V)
		if ty == nil {
			return e.errf("as: unknown type %s", s.V)
		}
		c := vc.sorts.AnyCtor(ty)
		return TVal{T: Term{app(c.sel, x.T.S), c.sort}, Ty: ty}
	case "deref":
		if !argc(1) {
			return TVal{}
		}
		a := e.tr(n.Args[0])
		if a.Ty == nil {
			return e.errf("deref of a value without Go type")
		}
		pt, ok := a.Ty.Underlying().(*types.Pointer)
		if !ok {
			return e.errf("deref of non-pointer")
		}
		es := vc.sorts.SortOf(pt.Elem())
		if a.T.Sort == SOptInt {
			return TVal{T: Term{app("oi_val", a.T.S), SInt}, Ty: pt.Elem()}
		}
		if a.T.Sort == SOptRat {
			return TVal{T: Term{app("or_val", a.T.S), SReal}, Ty: pt.Elem()}
		}
		if _, isS := vc.sorts.structs[es]; isS {
			return TVal{T: vc.readStruct(e.st, a.T, es), Ty: pt.Elem()}
		}
		hn, hs := vc.boxHeap(es)
		return TVal{T: Term{app("select", vc.heapGet(e.st, hn, hs).S, a.T.S), es}, Ty: pt.Elem()}
	case "lib":
		// lib("pkg.Func", args...): the result of a pure library function (same symbol the executor uses)
		if len(n.Args) < 1 {
			return e.errf("lib needs a function name")
		}
		ns, ok := n.Args[0].(EStr)
		if !ok {
			return e.errf("lib: %s is not a function name", exprString(n.Args[0]))
		}
		var lsig *types.Signature
		if strings.HasPrefix(ns.V, "iface:") {
			// iface:pkg.Interface.Method of a package declared pure
			parts := strings.Split(ns.V[6:], ".")
			if len(parts) == 3 {
				if tp := vc.prog.pkgByName(parts[0]); tp != nil && vc.prog.contracts.PurePkgs[tp.Path()] {
					if tn, ok := tp.Scope().Lookup(parts[1]).(*types.TypeName); ok {
						if it, ok := tn.Type().Underlying().(*types.Interface); ok {
							for i := 0; i < it.NumMethods(); i++ {
								if it.Method(i).Name() == parts[2] {
									lsig = it.Method(i).Type().(*types.Signature)
								}
							}
						}
					}
				}
			}
			if lsig == nil {
				return e.errf("lib: %s is not an interface method of a package declared pure", ns.V)
			}
		} else {
			f := vc.prog.libFunc(ns.V)
			if f == nil {
				return e.errf("lib: function %s is not in the loaded program", ns.V)
			}
			if !pureLib[ns.V] && !vc.prog.inPurePkg(f) {
				return e.errf("lib: %s is not a modelled pure library function", ns.V)
			}
			lsig = f.Signature
		}
		var as, sorts []string
		for _, a := range n.Args[1:] {
			v := e.tr(a)
			as = append(as, v.T.S)
			sorts = append(sorts, v.T.Sort)
		}
		res := lsig.Results()
		if res.Len() < 1 {
			return e.errf("lib: %s has no result", ns.V)
		}
		if t, ok := vc.foldPureLib(ns.V, as); ok {
			return TVal{T: t, Ty: res.At(0).Type()}
		}
		rs := vc.sorts.SortOf(res.At(0).Type())
		fn := libFuncName(ns.V, 0, sorts)
		vc.declareFun(fn, sorts, rs)
		if len(as) == 0 {
			return TVal{T: Term{fn, rs}, Ty: res.At(0).Type()}
		}
		return TVal{T: Term{app(fn, as...), rs}, Ty: res.At(0).Type()}
	case "separate":
		// separate(a.f, b.g): the elements of slice a.f are not reachable through slice b.g (backing.go)
		if len(n.Args) != 2 {
			return e.errf("separate(a.f, b.g) expected")
		}
		if !e.goal {
			// at a call site nothing is learnt from it: the caller's slices are values
			return TVal{T: Term{"true", SBool}, Ty: types.Typ[types.Bool]}
		}
		var bk [2]*Backing
		for i, a := range n.Args {
			f, ok := a.(EField)
			if !ok {
				return e.errf("separate: %s is not a field of an object", exprString(a))
			}
			x := e.tr(f.X)
			var pt *types.Pointer
			if x.Ty != nil {
				pt, ok = x.Ty.Underlying().(*types.Pointer)
			}
			if !ok {
				return e.errf("separate: %s is not a pointer", exprString(f.X))
			}
			p := &Ptr{Kind: PRef, Ref: x.T, SSort: vc.sorts.SortOf(pt.Elem()), Path: []Step{{IsField: true, FieldName: f.Name}}}
			bk[i] = vc.backLoaded(e.st, p, e.tr(a).T)
		}
		la := e.tr(ECall{Fun: "len", Args: []Expr{n.Args[0]}})
		return TVal{T: Term{vc.separateFormula(e.st, bk[0], bk[1], la.T.S), SBool}, Ty: types.Typ[types.Bool]}
	case "sprintf":
		// sprintf("format", args...): the result of fmt.Sprintf with that constant format (same symbol the executor uses)
		if len(n.Args) < 1 {
			return e.errf("sprintf needs a format")
		}
		fs, ok := n.Args[0].(EStr)
		if !ok {
			return e.errf("sprintf: %s is not a constant format", exprString(n.Args[0]))
		}
		if vc.fmtIDs == nil {
			vc.fmtIDs = map[string]int{}
		}
		id, ok := vc.fmtIDs[fs.V]
		if !ok {
			id = len(vc.fmtIDs) + 1
			vc.fmtIDs[fs.V] = id
		}
		var as, sorts []string
		for _, a := range n.Args[1:] {
			v := e.tr(a)
			t := v.T.S
			if v.T.Sort != SAny {
				if v.Ty == nil {
					return e.errf("sprintf: cannot box %s (untyped)", exprString(a))
				}
				c := vc.sorts.AnyCtor(v.Ty)
				if c.sort != SAny {
					t = app(c.name, t)
				}
			}
			as = append(as, t)
			sorts = append(sorts, SAny)
		}
		name := fmt.Sprintf("sprintf_%d_%d", id, len(as))
		vc.declareFun(name, sorts, SStr)
		if len(as) == 0 {
			return TVal{T: Term{name, SStr}, Ty: types.Typ[types.String]}
		}
		vc.sprintfFormats[name] = fs.V
		return TVal{T: Term{app(name, as...), SStr}, Ty: types.Typ[types.String]}
	case "mark":
		// instantiation hint: asserts the (otherwise unconstrained) trigger predicate
		// qt_<sorts>(args), so universally quantified assumptions fire on this tuple
		var as, sorts []string
		for _, a := range n.Args {
			v := e.tr(a)
			as = append(as, v.T.S)
			sorts = append(sorts, v.T.Sort)
		}
		qt := "qt"
		for _, s := range sorts {
			qt += "_" + sanitize(s)
		}
		vc.declareFun(qt, sorts, SBool)
		e.st.assume(app(qt, as...))
		return TVal{T: Term{"true", SBool}}
	case "declaredConst":
		// declaredConst(x, "pkg.Type"): x equals one of the constants declared with that named type
		// (read from the loaded package, so a new constant widens the obligation without editing the contract)
		if !argc(2) {
			return TVal{}
		}
		x := e.tr(n.Args[0])
		ts, ok := n.Args[1].(EStr)
		if !ok {
			return e.errf("declaredConst needs a type name literal")
		}
		ty, _ := e.resolveType(ts.V)
		nt, ok2 := ty.(*types.Named)
		if ty == nil || !ok2 {
			return e.errf("declaredConst: unknown named type %s", ts.V)
		}
		var alts []string
		sc := nt.Obj().Pkg().Scope()
		for _, name := range sc.Names() {
			if c, ok := sc.Lookup(name).(*types.Const); ok && types.Identical(c.Type(), nt) {
				cv := e.constVal(c)
				alts = append(alts, app("=", x.T.S, cv.T.S))
			}
		}
		if len(alts) == 0 {
			return e.errf("declaredConst: no constant of type %s", ts.V)
		}
		return TVal{T: Term{or(alts...), SBool}}
	case "with":
		// with(structValue, "Field", v): the struct value with one field replaced
		if !argc(3) {
			return TVal{}
		}
		base := e.tr(n.Args[0])
		fs, ok := n.Args[1].(EStr)
		if !ok {
			return e.errf("with needs a field name literal")
		}
		v := e.tr(n.Args[2])
		si := vc.sorts.StructInfo(base.T.Sort)
		if si == nil {
			return e.errf("with: %s is not a struct value", exprString(n.Args[0]))
		}
		found := false
		parts := []string{"mk_" + base.T.Sort}
		for _, f := range si.fields {
			if f.name == fs.V {
				found = true
				if f.sort != v.T.Sort {
					return e.errf("with: field %s has sort %s, value has %s", fs.V, f.sort, v.T.Sort)
				}
				parts = append(parts, v.T.S)
			} else {
				parts = append(parts, vc.sel(base.T.Sort, f.name, base.T.S))
			}
		}
		if !found {
			return e.errf("with: no field %s", fs.V)
		}
		return TVal{T: Term{"(" + strings.Join(parts, " ") + ")", base.T.Sort}, Ty: base.Ty}
	case "anyof":
		// the interface value holding x (boxed with x's static Go type)
		if !argc(1) {
			return TVal{}
		}
		a := e.tr(n.Args[0])
		if a.Ty == nil {
			return e.errf("anyof of a value without Go type")
		}
		if a.T.Sort == SAny {
			return a
		}
		c := vc.sorts.AnyCtor(a.Ty)
		return TVal{T: Term{app(c.name, a.T.S), SAny}}
	case "closed":
		if !argc(1) {
			return TVal{}
		}
		c := e.tr(n.Args[0])
		h := vc.heapGet(e.st, "CH_closed", "(Array Int Bool)")
		return TVal{T: Term{app("select", h.S, c.T.S), SBool}}
	case "floor":
		if !argc(1) {
			return TVal{}
		}
		a := e.tr(n.Args[0])
		return TVal{T: Term{app("to_int", a.T.S), SInt}}
	case "mulR":
		if !argc(2) {
			return TVal{}
		}
		a, b := e.tr(n.Args[0]), e.tr(n.Args[1])
		return TVal{T: Term{app("mulR", a.T.S, b.T.S), SReal}}
	case "intOfString":
		// intOfString(s, base): the integer big.Int.SetString reads from s in that base (same symbol the executor uses)
		if !argc(2) {
			return TVal{}
		}
		{
			a := e.tr(n.Args[0])
			b := e.tr(n.Args[1])
			vc.declareFun("str_int", []string{SStr, SInt}, SInt)
			return TVal{T: Term{app("str_int", a.T.S, b.T.S), SInt}, Ty: types.Typ[types.Int]}
		}
	case "intString":
		// intString(x): the decimal text big.Int.String renders for the integer x (same symbol the executor uses)
		if !argc(1) {
			return TVal{}
		}
		{
			a := e.tr(n.Args[0])
			if a.T.Sort != SInt {
				return e.errf("intString of a non-integer")
			}
			vc.declareFun("int_str", []string{SInt}, SStr)
			return TVal{T: Term{app("int_str", a.T.S), SStr}, Ty: types.Typ[types.String]}
		}
	case "ratOfString":
		// ratOfString(s): the rational big.Rat.SetString reads from s (same symbol the executor uses)
		if !argc(1) {
			return TVal{}
		}
		{
			a := e.tr(n.Args[0])
			vc.declareFun("str_rat", []string{SStr}, SReal)
			return TVal{T: Term{app("str_rat", a.T.S), SReal}}
		}
	case "toReal":
		if !argc(1) {
			return TVal{}
		}
		a := e.tr(n.Args[0])
		return TVal{T: Term{app("to_real", a.T.S), SReal}}
	}
	if fd, ok := vc.prog.contracts.Folds[n.Fun]; ok {
		e.ground = false
		fi := e.foldInst(fd)
		if fi.err != nil {
			return e.errf("fold %s: %v", n.Fun, fi.err)
		}
		if len(n.Args) != len(fd.Params) {
			return e.errf("fold %s expects %d arguments", n.Fun, len(fd.Params))
		}
		var as []string
		for i, a := range n.Args {
			v := e.tr(a)
			if i == 0 && v.T.Sort != fi.seqSort {
				return e.errf("fold %s applied to %s, wants %s", n.Fun, v.T.Sort, fi.seqSort)
			}
			as = append(as, v.T.S)
		}
		rs := SInt
		if fd.Result == "bool" {
			rs = SBool
		} else if fd.Result == "real" {
			rs = SReal
		}
		for _, h := range sortedKeys(fi.heaps) {
			if cur := vc.heapGet(e.st, h, fi.heaps[h]); cur.S != h+"_init" {
				return e.errf("fold %s reads heap component %s, which differs from the entry heap in this state", n.Fun, h)
			}
		}
		return TVal{T: Term{app("fold_"+fd.Name, as...), rs}}
	}
	if dd, ok := vc.prog.contracts.Defs[n.Fun]; ok {
		if len(n.Args) != len(dd.Params) {
			return e.errf("def %s expects %d arguments", n.Fun, len(dd.Params))
		}
		if e.depth > 20 {
			return e.errf("def %s: expansion too deep", n.Fun)
		}
		sub := e.sub()
		sub.depth = e.depth + 1
		for i, p := range dd.Params {
			sub.binds[p.Name] = e.tr(n.Args[i])
		}
		r := sub.tr(dd.Body)
		e.errs = append(e.errs, sub.errs[len(e.errs):]...)
		if !sub.ground {
			e.ground = false
		}
		return r
	}
	if uf, ok := vc.prog.contracts.pkgUFuns[n.Fun]; ok {
		var as []string
		var sorts []string
		for i, a := range n.Args {
			v := e.tr(a)
			as = append(as, v.T.S)
			_ = i
			sorts = append(sorts, v.T.Sort)
		}
		_, rs := e.resolveType(uf.Result)
		vc.declareFun("uf_"+uf.Name, sorts, rs)
		rt, _ := e.resolveType(uf.Result)
		return TVal{T: Term{app("uf_"+uf.Name, as...), rs}, Ty: rt}
	}
	return e.errf("unknown function %s", n.Fun)
}

// folds ------------------------------------------------------------------------

type foldInst struct {
	fd        *FoldDecl
	seqSort   string
	elemType  types.Type
	ptypes    []types.Type
	axiomText string
	err       error
	heaps     map[string]string // heap components the body reads (in the function's entry heap)
}

func (e *Env) foldInst(fd *FoldDecl) *foldInst {
	vc := e.ex.vc
	if fi, ok := vc.folds[fd.Name]; ok {
		return fi
	}
	fi := &foldInst{fd: fd}
	vc.folds[fd.Name] = fi
	sub := *e
	sub.pkg = fd.pkg
	if len(fd.Params) == 0 {
		fi.err = fmt.Errorf("no parameters")
		return fi
	}
	for i, p := range fd.Params {
		ty, s := sub.resolveType(p.Type)
		if s == "" {
			fi.err = fmt.Errorf("unknown type %s", p.Type)
			return fi
		}
		fi.ptypes = append(fi.ptypes, ty)
		if i == 0 {
			sl, ok := ty.(*types.Slice)
			if !ok {
				fi.err = fmt.Errorf("first parameter must be a slice")
				return fi
			}
			fi.seqSort = s
			fi.elemType = sl.Elem()
		}
	}
	fi.build(e)
	vc.foldOrder = append(vc.foldOrder, fd.Name)
	return fi
}

func (fi *foldInst) build(e *Env) {
	fd := fi.fd
	vc := e.ex.vc
	S := fi.seqSort
	E := vc.sorts.seqs[S]
	rs := SInt
	if fd.Result == "bool" {
		rs = SBool
	} else if fd.Result == "real" {
		rs = SReal
	}
	// extra parameter list
	var pdecl, pnames, psorts []string
	for i, p := range fd.Params[1:] {
		var s string
		if fi.ptypes[i+1] != nil {
			s = vc.sorts.SortOf(fi.ptypes[i+1])
		} else {
			_, s = e.resolveType(p.Type)
		}
		pdecl = append(pdecl, fmt.Sprintf("(p%d %s)", i, s))
		pnames = append(pnames, fmt.Sprintf("p%d", i))
		psorts = append(psorts, s)
	}
	// body term over x and params
	sub := e.sub()
	sub.pkg = fd.pkg
	sub.useCells = false
	sub.binds = map[string]TVal{fd.Var: {T: Term{"x", E}, Ty: fi.elemType}}
	for i, p := range fd.Params[1:] {
		sub.binds[p.Name] = TVal{T: Term{fmt.Sprintf("p%d", i), psorts[i]}, Ty: fi.ptypes[i+1]}
	}
	sub.errs = nil
	// a body that reads the heap reads the entry heap of the function under verification; an application
	// of the fold in a state whose heap differs in those components is rejected (see foldHeapCheck)
	sub.st = NewState()
	sub.old = nil
	prevRec := vc.recHeaps
	vc.recHeaps = map[string]string{}
	body := sub.tr(fd.Body)
	fi.heaps = vc.recHeaps
	vc.recHeaps = prevRec
	for h, srt := range fi.heaps {
		if prevRec != nil {
			prevRec[h] = srt
		}
	}
	for _, inner := range vc.folds {
		if inner != fi && inner.heaps != nil && strings.Contains(body.T.S, "fold_"+inner.fd.Name+" ") {
			for h, srt := range inner.heaps {
				fi.heaps[h] = srt
			}
		}
	}
	if len(sub.errs) > 0 {
		vc.fatalf("fold %s body: %s", fd.Name, strings.Join(sub.errs, "; "))
		return
	}
	F := "fold_" + fd.Name
	B := "foldb_" + fd.Name
	args := func(s string) string { return strings.TrimSpace(s + " " + strings.Join(pnames, " ")) }
	all := func(vars string) string { return strings.TrimSpace(vars + " " + strings.Join(pdecl, " ")) }
	var b strings.Builder
	fmt.Fprintf(&b, "; ---- fold %s (%s)\n", fd.Name, fd.Kind)
	bodySort := body.T.Sort
	fmt.Fprintf(&b, "(define-fun %s ((x %s) %s) %s %s)\n", B, E, strings.Join(pdecl, " "), bodySort, body.T.S)
	fmt.Fprintf(&b, "(declare-fun %s (%s %s) %s)\n", F, S, strings.Join(psorts, " "), rs)
	var comb func(a, b string) string
	var unit string
	elem := func(x string) string { return app(B, args(x)) }
	switch fd.Kind {
	case "sum":
		unit = "0"
		if rs == SReal {
			unit = "0.0"
		}
		comb = func(a, b string) string { return app("+", a, b) }
	case "count":
		unit = "0"
		comb = func(a, b string) string { return app("+", a, b) }
		elem = func(x string) string { return ite(app(B, args(x)), "1", "0") }
	case "all":
		unit = "true"
		comb = func(a, b string) string { return and(a, b) }
	}
	if len(pdecl) > 0 {
		fmt.Fprintf(&b, "(assert (forall (%s) (! (= %s %s) :pattern (%s))))\n", all(""), app(F, args("sq_empty_"+S)), unit, app(F, args("sq_empty_"+S)))
	} else {
		fmt.Fprintf(&b, "(assert (= %s %s))\n", app(F, "sq_empty_"+S), unit)
	}
	fmt.Fprintf(&b, "(assert (forall (%s) (! (= %s %s) :pattern (%s))))\n", all(fmt.Sprintf("(s %s) (e %s)", S, E)),
		app(F, args(app("sq_snoc_"+S, "s", "e"))), comb(app(F, args("s")), elem("e")), app(F, args(app("sq_snoc_"+S, "s", "e"))))
	fmt.Fprintf(&b, "(assert (forall (%s) (! (= %s %s) :pattern (%s))))\n", all(fmt.Sprintf("(s %s) (t %s)", S, S)),
		app(F, args(app("sq_concat_"+S, "s", "t"))), comb(app(F, args("s")), app(F, args("t"))), app(F, args(app("sq_concat_"+S, "s", "t"))))
	// split at k: fold(s) = fold(s[:k]) (+) fold(s[k:])   (inductive consequence)
	fmt.Fprintf(&b, "(assert (forall (%s) (! (=> (and (<= 0 k) (<= k hi) (= hi (sq_len_%s s))) (= %s %s)) :pattern (%s %s))))\n",
		all(fmt.Sprintf("(s %s) (k Int) (hi Int)", S)), S,
		app(F, args("s")), comb(app(F, args(app("sq_sub_"+S, "s", "0", "k"))), app(F, args(app("sq_sub_"+S, "s", "k", "hi")))),
		app(F, args(app("sq_sub_"+S, "s", "k", "hi"))), app(F, args("s")))
	// prefix split: fold(s) = fold(s[:k]) (+) fold(s[k:])
	fmt.Fprintf(&b, "(assert (forall (%s) (! (=> (and (<= 0 k) (<= k (sq_len_%s s))) (= %s %s)) :pattern (%s%s))))\n",
		all(fmt.Sprintf("(s %s) (k Int)", S)), S,
		app(F, args("s")), comb(app(F, args(app("sq_sub_"+S, "s", "0", "k"))), app(F, args(app("sq_sub_"+S, "s", "k", app("sq_len_"+S, "s"))))),
		app(F, args(app("sq_sub_"+S, "s", "0", "k"))), "")
	// reverse
	fmt.Fprintf(&b, "(assert (forall (%s) (! (= %s %s) :pattern (%s))))\n", all(fmt.Sprintf("(s %s)", S)),
		app(F, args(app("sq_rev_"+S, "s"))), app(F, args("s")), app(F, args(app("sq_rev_"+S, "s"))))
	// zeros
	// update: fold(update(s,i,e)) = fold(s) - b(at(s,i)) + b(e)   (sum/count), for all: elimination only
	if fd.Kind == "sum" || fd.Kind == "count" {
		fmt.Fprintf(&b, "(assert (forall (%s) (! (=> (and (<= 0 i) (< i (sq_len_%s s))) (= %s (+ (- %s %s) %s))) :pattern (%s))))\n",
			all(fmt.Sprintf("(s %s) (i Int) (e %s)", S, E)), S,
			app(F, args(app("sq_update_"+S, "s", "i", "e"))), app(F, args("s")), elem(app("sq_at_"+S, "s", "i")), elem("e"),
			app(F, args(app("sq_update_"+S, "s", "i", "e"))))
		mulN := "n"
		if rs == SReal {
			mulN = "(to_real n)"
		}
		fmt.Fprintf(&b, "(assert (forall (%s) (! (=> (>= n 0) (= %s (* %s %s))) :pattern (%s))))\n", all("(n Int)"),
			app(F, args(app("sq_zeros_"+S, "n"))), mulN, elem(vc.sorts.Zero(E).S), app(F, args(app("sq_zeros_"+S, "n"))))
		if fd.Kind == "count" {
			fmt.Fprintf(&b, "(assert (forall (%s) (! (>= %s 0) :pattern (%s))))\n", all(fmt.Sprintf("(s %s)", S)), app(F, args("s")), app(F, args("s")))
		}
	} else {
		// all: elimination and update
		fmt.Fprintf(&b, "(assert (forall (%s) (! (=> (and %s (<= 0 i) (< i (sq_len_%s s))) %s) :pattern (%s (sq_at_%s s i)))))\n",
			all(fmt.Sprintf("(s %s) (i Int)", S)), app(F, args("s")), S, elem(app("sq_at_"+S, "s", "i")), app(F, args("s")), S)
		fmt.Fprintf(&b, "(assert (forall (%s) (! (=> (and %s %s) %s) :pattern (%s))))\n",
			all(fmt.Sprintf("(s %s) (i Int) (e %s)", S, E)), app(F, args("s")), elem("e"), app(F, args(app("sq_update_"+S, "s", "i", "e"))), app(F, args(app("sq_update_"+S, "s", "i", "e"))))
		// sub-sequences of an all-sequence
		fmt.Fprintf(&b, "(assert (forall (%s) (! (=> (and %s (<= 0 lo) (<= lo hi) (<= hi (sq_len_%s s))) %s) :pattern (%s))))\n",
			all(fmt.Sprintf("(s %s) (lo Int) (hi Int)", S)), app(F, args("s")), S, app(F, args(app("sq_sub_"+S, "s", "lo", "hi"))), app(F, args(app("sq_sub_"+S, "s", "lo", "hi"))))
		// introduction: pointwise => all   (skolem witness function)
		W := "foldw_" + fd.Name
		fmt.Fprintf(&b, "(declare-fun %s (%s %s) Int)\n", W, S, strings.Join(psorts, " "))
		w := app(W, args("s"))
		fmt.Fprintf(&b, "(assert (forall (%s) (! (=> (=> (and (<= 0 %s) (< %s (sq_len_%s s))) %s) %s) :pattern (%s))))\n",
			all(fmt.Sprintf("(s %s)", S)), w, w, S, elem(app("sq_at_"+S, "s", w)), app(F, args("s")), app(F, args("s")))
	}
	fi.axiomText = b.String()
}

func (e *Env) frameID() int {
	if e.fr != nil {
		return e.fr.id
	}
	return 0
}
