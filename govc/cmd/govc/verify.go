package main

// verifyFunc: generate the obligations of one function under contract.

import (
	"fmt"
	"go/types"
	"runtime/debug"
	"strings"

	"golang.org/x/tools/go/ssa"
)

const arithPrelude = `(set-option :smt.auto-config false)
(set-option :smt.mbqi false)
(set-option :auto_config false)
(define-fun go_div ((a Int) (b Int)) Int (ite (>= a 0) (ite (> b 0) (div a b) (- (div a (- b)))) (ite (> b 0) (- (div (- a) b)) (div (- a) (- b)))))
(define-fun go_mod ((a Int) (b Int)) Int (- a (* b (go_div a b))))
(declare-fun imul (Int Int) Int)
(declare-fun ediv (Int Int) Int)
(declare-fun emod (Int Int) Int)
(declare-fun rat_num (Real) Int)
(declare-fun rat_den (Real) Int)
(declare-fun mulR (Int Real) Real)
(assert (forall ((r Real)) (! (> (rat_den r) 0) :pattern ((rat_den r)))))
(assert (forall ((a Int) (p Real)) (! (= (ediv (imul a (rat_num p)) (rat_den p)) (to_int (mulR a p))) :pattern ((ediv (imul a (rat_num p)) (rat_den p))))))
(assert (forall ((a Int) (p Real)) (! (=> (and (>= a 0) (>= p 0.0)) (>= (mulR a p) 0.0)) :pattern ((mulR a p)))))
(assert (forall ((a Int)) (! (= (imul a 0) 0) :pattern ((imul a 0)))))
(assert (forall ((a Int)) (! (= (imul a 1) a) :pattern ((imul a 1)))))
`

type FuncResult struct {
	Name        string
	Contract    *FuncContract
	VC          *VC
	Obligations []*Obligation
	Fatal       []string
	Paths       int
	Preamble    string
	CoverPC     []string
	ReturnPCs   [][]string
	File        string
	Trusted     bool
	SpecChecks  []specCheck
	TaggedOnly  bool // sweep result: only obligations explicitly tagged with the property are kept
}

func (p *Program) verifyFunc(name string, c *FuncContract) (res *FuncResult) {
	res = &FuncResult{Name: name, Contract: c}
	fn := p.funcs[name]
	if fn == nil {
		res.Fatal = []string{fmt.Sprintf("function %s under contract does not exist in the loaded packages (contract out of date)", name)}
		return res
	}
	if fn.Blocks == nil {
		res.Fatal = []string{fmt.Sprintf("function %s has no body", name)}
		return res
	}
	res.File = shortFile(p.fset.Position(fn.Pos()).Filename)
	vc := NewVC(p, fn, c)
	vc.sprintfFormats = map[string]string{}
	res.VC = vc
	ex := &Exec{vc: vc}
	st := NewState()
	fr := ex.newFrame(fn, 0, nil)
	fr.top = true
	fr.contract = c
	vc.curFrame = fr
	defer func() {
		if r := recover(); r != nil {
			res.Fatal = append(res.Fatal, fmt.Sprintf("generator panic in %s: %v\n%s", name, r, truncate(string(debug.Stack()), 1800)))
		}
	}()
	vc.declare("alloc0", SInt)
	st.allocTop = Term{"alloc0", SInt}
	st.assume("(>= alloc0 0)")
	// parameters
	for _, prm := range fn.Params {
		s := vc.sorts.SortOf(prm.Type())
		t := Term{"p_" + sanitize(prm.Name()), s}
		vc.declare(t.S, s)
		fr.params = append(fr.params, tv(t))
		ex.typeInvariant(st, t, prm.Type())
		ex.assumeTypeInv(st, tv(t), prm.Type())
	}
	pkg := fnPkg(fn)
	capNames := captureNames(c)
	for _, fv := range fn.FreeVars {
		// closures verified on their own: free variables are opaque cells
		et := fv.Type().(*types.Pointer).Elem()
		vc.cellCtr++
		cell := &Cell{id: vc.cellCtr, frame: fr.id, name: fv.Name(), typ: et, sort: vc.sorts.SortOf(et)}
		st.order = append(st.order, cell)
		t := Term{"fv_" + sanitize(fv.Name()), cell.sort}
		vc.declare(t.S, cell.sort)
		st.cells[cell] = tv(t)
		if !capNames[fv.Name()] {
			st.shared[cell] = true // may be assigned by the creator or by other closures at any time
		}
		fr.free = append(fr.free, Val{K: VPtr, P: &Ptr{Kind: PCell, Cell: cell, Typ: et}})
	}
	// global assumptions
	for _, ga := range p.contracts.Assumes {
		if !pkgSees(pkg, ga.pkg) {
			continue
		}
		env := ex.newEnv(st, nil, ga.pkg, fr)
		f := env.Bool(ga.Expr)
		if len(env.errs) == 0 {
			st.assume(f)
		} else if ga.pkg == pkg {
			vc.fatalf("assume %q: %s", ga.Text, strings.Join(env.errs, "; "))
		}
	}
	env := ex.newEnv(st, nil, pkg, fr)
	ex.bindParams(env, fr)
	for _, r := range c.Requires {
		if isImplements(r.Expr) || len(r.Scope) > 0 {
			// (a scoped clause speaks about particular callers: it is not a fact about every call)
			continue
		}
		f := env.Bool(r.Expr)
		if len(env.errs) > 0 {
			vc.fatalf("%s requires %q: %s", name, r.Text, strings.Join(env.errs, "; "))
			break
		}
		st.assume(f)
	}
	for _, r := range c.Captures {
		f := env.Bool(r.Expr)
		if len(env.errs) > 0 {
			vc.fatalf("%s captures %q: %s", name, r.Text, strings.Join(env.errs, "; "))
			break
		}
		st.assume(f)
	}
	for _, r := range c.Assumes {
		if len(r.Props) > 0 && p.curProp != "" && !hasProp(r.Props, p.curProp) {
			continue // an assumption made for another property only
		}
		f := env.Bool(r.Expr)
		if len(env.errs) > 0 {
			vc.fatalf("%s assumes %q: %s", name, r.Text, strings.Join(env.errs, "; "))
			break
		}
		st.assume(f)
		vc.usedExt["assumed precondition of "+name+" (not checked at call sites): "+r.Text] = true
	}
	if fn.Name() == "init" && fn.Pkg != nil && fn.Synthetic != "" {
		// the package initialiser runs once: its guard is still false
		st.ghost["global:g_"+sanitize(fn.Pkg.Pkg.Name()+"_init$guard")] = Term{"false", SBool}
	}
	for _, r := range c.Owns {
		v := env.tr(r.Expr)
		if len(env.errs) > 0 {
			vc.fatalf("%s owns %q: %s", name, r.Text, strings.Join(env.errs, "; "))
			break
		}
		vc.owned = append(vc.owned, v.T.S)
	}
	vc.entry = st.clone()
	fr.oldState = vc.entry
	res.CoverPC = append([]string{}, st.pc...)
	covered := false
	_ = covered
	if len(vc.fatal) == 0 {
		ex.run(fr, fn.Blocks[0], 0, nil, st, func(st2 *State, rets []Val, panicked bool) {
			vc.paths++
			if panicked {
				if c.NoPanic && vc.collecting == 0 && (len(c.NoPanicProps) == 0 || p.curProp == "" || hasProp(c.NoPanicProps, p.curProp)) {
					vc.curProps = c.NoPanicProps
					ex.obligationFull(fr, st2, "nopanic", "explicit panic unreachable", "false", false, fmt.Sprintf("panic@%d", ex.siteOrdinal(ex.cur)), true)
					vc.curProps = nil
				}
				return
			}
			covered = true
			if len(res.ReturnPCs) < 40 {
				res.ReturnPCs = append(res.ReturnPCs, append([]string{}, st2.pc...))
			}
			post := ex.newEnv(st2, vc.entry, pkg, fr)
			ex.bindParams(post, fr)
			var res Val
			switch len(rets) {
			case 0:
				res = Val{K: VNone}
			case 1:
				res = rets[0]
			default:
				res = Val{K: VTuple, Tup: rets}
			}
			ex.bindResults(post, fn.Signature, fn, res)
			for _, ip := range c.InPlace {
				if cell := st2.cellByName(ip, fr.id); cell != nil {
					cur := ex.load(st2, &Ptr{Kind: PCell, Cell: cell, Typ: cell.typ})
					if cur.K == VTerm {
						post.oldBinds = map[string]TVal{}
						if pv, ok := post.params[ip]; ok {
							if post.oldBinds == nil {
								post.oldBinds = map[string]TVal{}
							}
							post.oldBinds[ip] = pv
						}
						post.binds[ip] = TVal{T: cur.T, Ty: cell.typ}
					}
				} else {
					vc.fatalf("inplace %s: no such parameter", ip)
				}
			}
			if len(c.Updates) > 0 {
				ex.applyUpdates(st2, c, post)
			}
			vc.groupCtr++
			basePC := len(st2.pc)
			for _, e := range c.Ensures {
				post.errs = nil
				post.ground = true
				post.goal = true
				g := post.Bool(e.Expr)
				if len(post.errs) > 0 {
					vc.fatalf("%s ensures %q: %s", name, e.Text, strings.Join(post.errs, "; "))
					return
				}
				n0 := len(vc.obligations)
				vc.curProps = e.Props
				ex.obligationFull(fr, st2, "ensures", e.Text, g, false, fmt.Sprint(e.Ordinal), post.ground)
				vc.curProps = nil
				if len(vc.obligations) > n0 {
					o := vc.obligations[len(vc.obligations)-1]
					o.Group = vc.groupCtr
					// every clause of the group is proved from the path condition at the return,
					// not from the clauses before it
					if len(o.Assumes) > basePC {
						kept := append([]string{}, o.Assumes[:basePC]...)
						for _, a := range o.Assumes[basePC:] {
							if strings.HasPrefix(a, "(qt_") {
								kept = append(kept, a)
							}
						}
						o.Assumes = kept
					}
				}
			}
			if c.HasMod {
				ex.frameObligations(fr, st2, c, post)
			}
			ex.scopeReturn(fr, st2)
			ex.scopeResultText(fr, st2, rets)
			for _, d := range c.GlobalInvs {
				if g := p.globalByName(d.Name); g != nil {
					gt := ex.globalTerm(st2, g)
					f, ground := ex.invFormula(st2, d, gt, g.Type().(*types.Pointer).Elem(), true)
					vc.curProps = d.Props
					ex.obligationFull(fr, st2, "globalinv", fmt.Sprintf("invariant of %s after package initialisation: %s", d.Name, d.Inv.Text), f, false, sanitize(d.Name), ground)
					vc.curProps = nil
				}
			}
		})
	}
	res.Obligations = vc.obligations
	res.SpecChecks = vc.specChecks
	res.Fatal = append(res.Fatal, vc.fatal...)
	if vc.paths > vc.maxPaths {
		res.Fatal = append(res.Fatal, fmt.Sprintf("more than %d paths in %s", vc.maxPaths, name))
	}
	res.Paths = vc.paths
	res.Preamble = vc.preamble()
	return res
}

// typeInvariant: facts that hold for every value of a Go type.
func (ex *Exec) typeInvariant(st *State, t Term, ty types.Type) {
	if lo, hi, ok := intKindRange(ty); ok && t.Sort == SInt {
		st.assume(and(app("<=", lo, t.S), app("<=", t.S, hi)))
	}
	if t.Sort == SRef {
		_, isPtr := ty.Underlying().(*types.Pointer)
		_, isMap := ty.Underlying().(*types.Map)
		if isPtr || isMap {
			if st.allocTop.S == "" {
				ex.vc.declare("alloc0", SInt)
				st.allocTop = Term{"alloc0", SInt}
				st.assume("(>= alloc0 0)")
			}
			st.assume(and(app(">=", t.S, "0"), app("<=", t.S, "alloc0")))
		}
	}
}

func (ex *Exec) frameObligations(fr *Frame, st *State, c *FuncContract, env *Env) {
	vc := ex.vc
	ws := ex.resolveModifies(c, env)
	if ws.all {
		return
	}
	// the frame clauses at one return are tried as one conjunction first (same path condition)
	vc.groupCtr++
	n0 := len(vc.obligations)
	basePC := append([]string{}, st.pc...)
	defer func() {
		for _, o := range vc.obligations[n0:] {
			if o.Kind == "frame" {
				o.Group = vc.groupCtr
				o.Assumes = basePC
			}
		}
	}()
	if st.epoch != vc.entry.epoch {
		ex.obligationFull(fr, st, "frame", "no unconstrained call may run in a function with a modifies clause", "false", false, "havoc", true)
		return
	}
	for _, h := range sortedKeys(st.heap) {
		if ws.heaps[h] {
			continue
		}
		skip := false
		for _, pre := range ws.prefixes {
			if strings.HasPrefix(h, pre) {
				skip = true
			}
		}
		if skip {
			continue
		}
		cur := st.heap[h]
		old := vc.heapGetByName(vc.entry, h)
		if cur.S == old.S {
			continue
		}
		goal := app("=", cur.S, old.S)
		if strings.HasPrefix(h, "H_") || strings.HasPrefix(h, "HP_") || strings.HasPrefix(h, "MD_") || strings.HasPrefix(h, "MV_") {
			// objects (maps included) allocated by this call are not part of the caller's frame
			goal = fmt.Sprintf("(forall ((r!f Int)) (=> (<= r!f alloc0) (= (select %s r!f) (select %s r!f))))", cur.S, old.S)
		}
		ex.obligationFull(fr, st, "frame", "unchanged (for objects that existed at entry): "+h, goal, false, h, true)
	}
	for _, g := range sortedKeys(st.ghost) {
		if ws.ghost[g] || strings.HasPrefix(g, "global:") {
			continue
		}
		cur := st.ghost[g]
		old, _ := env.ghostVal(g, vc.entry)
		if cur.S == old.T.S {
			continue
		}
		ex.obligationFull(fr, st, "frame", "unchanged: ghost "+g, app("=", cur.S, old.T.S), false, "ghost_"+g, true)
	}
}

func (vc *VC) preamble() string {
	var b strings.Builder
	b.WriteString(arithPrelude)
	spAx := vc.strPredAxioms() // may register constructors of the interface datatype: before the sorts are printed
	var folds []string
	for _, n := range vc.foldOrder {
		folds = append(folds, vc.folds[n].axiomText)
	}
	b.WriteString(vc.sorts.Preamble(nil))
	// string literals are pairwise distinct
	if len(vc.strOrder) > 0 {
		names := []string{"str_empty"}
		for i := range vc.strOrder {
			names = append(names, fmt.Sprintf("str_lit_%d", i+1))
		}
		for i, s := range vc.strOrder {
			fmt.Fprintf(&b, "(declare-const str_lit_%d Str) ; %q\n", i+1, s)
			fmt.Fprintf(&b, "(assert (= (str_len str_lit_%d) %d))\n", i+1, len(s))
		}
		fmt.Fprintf(&b, "(assert (distinct %s))\n", strings.Join(names, " "))
	}
	// uninterpreted spec functions and entry-heap components may occur in fold bodies
	early := func(d string) bool {
		if strings.HasPrefix(d, "(declare-fun uf_") {
			return true
		}
		for _, fi := range vc.folds {
			for h := range fi.heaps {
				if strings.HasPrefix(d, "(declare-const "+h+"_init ") {
					return true
				}
			}
		}
		return false
	}
	for _, d := range vc.decls {
		if early(d) {
			b.WriteString(d)
			b.WriteString("\n")
		}
	}
	for _, f := range folds {
		b.WriteString(f)
	}
	for _, d := range vc.decls {
		if early(d) {
			continue
		}
		b.WriteString(d)
		b.WriteString("\n")
	}
	for _, a := range vc.extraAxioms {
		b.WriteString(a)
		b.WriteString("\n")
	}
	if vc.declSet["str_sub"] {
		b.WriteString("(assert (forall ((s Str) (i Int) (j Int)) (! (=> (and (<= 0 i) (<= i j) (<= j (str_len s))) (= (str_len (str_sub s i j)) (- j i))) :pattern ((str_sub s i j)))))\n")
	}
	b.WriteString(spAx)
	b.WriteString(vc.prefixAxioms())
	return b.String()
}

func (o *Obligation) Query(preamble string) string {
	var b strings.Builder
	b.WriteString(preamble)
	fmt.Fprintf(&b, "; obligation %s\n; clause: %s\n; at %s\n", o.Name, o.Clause, o.Where)
	for _, t := range o.Trace {
		fmt.Fprintf(&b, ";   %s\n", t)
	}
	for _, a := range o.Assumes {
		fmt.Fprintf(&b, "(assert %s)\n", a)
	}
	fmt.Fprintf(&b, "(assert (not %s))\n(check-sat)\n", o.Goal)
	return b.String()
}

var _ = ssa.NaiveForm

// verifyLemma: requires ==> ensures over fresh parameters.
func (p *Program) verifyLemma(l *LemmaDecl) (res *FuncResult) {
	name := "lemma." + l.Name
	res = &FuncResult{Name: name, File: shortFile(l.File)}
	vc := NewVC(p, nil, nil)
	vc.sprintfFormats = map[string]string{}
	res.VC = vc
	ex := &Exec{vc: vc}
	st := NewState()
	defer func() {
		if r := recover(); r != nil {
			res.Fatal = append(res.Fatal, fmt.Sprintf("generator panic in %s: %v", name, r))
		}
	}()
	env := ex.newEnv(st, nil, l.pkg, nil)
	for _, prm := range l.Params {
		ty, s := env.resolveType(prm.Type)
		if s == "" {
			res.Fatal = append(res.Fatal, fmt.Sprintf("lemma %s: unknown type %s", l.Name, prm.Type))
			return res
		}
		t := Term{"l_" + sanitize(prm.Name), s}
		vc.declare(t.S, s)
		env.binds[prm.Name] = TVal{T: t, Ty: ty}
	}
	for _, ga := range p.contracts.Assumes {
		e2 := ex.newEnv(st, nil, ga.pkg, nil)
		f := e2.Bool(ga.Expr)
		if len(e2.errs) == 0 {
			st.assume(f)
		}
	}
	for _, r := range l.Requires {
		f := env.Bool(r.Expr)
		if len(env.errs) > 0 {
			res.Fatal = append(res.Fatal, fmt.Sprintf("lemma %s requires %q: %s", l.Name, r.Text, strings.Join(env.errs, "; ")))
			return res
		}
		st.assume(f)
	}
	res.CoverPC = append([]string{}, st.pc...)
	for _, e := range l.Ensures {
		env.ground = true
		env.goal = true
		g := env.Bool(e.Expr)
		if len(env.errs) > 0 {
			res.Fatal = append(res.Fatal, fmt.Sprintf("lemma %s ensures %q: %s", l.Name, e.Text, strings.Join(env.errs, "; ")))
			return res
		}
		o := &Obligation{Name: fmt.Sprintf("%s#lemma#%d", name, e.Ordinal), Kind: "lemma", Clause: e.Text, Where: fmt.Sprintf("%s:%d", shortFile(l.File), e.Line),
			Assumes: append([]string{}, st.pc...), Goal: g, Func: name, Ground: env.ground}
		vc.obligations = append(vc.obligations, o)
	}
	res.Obligations = vc.obligations
	res.Fatal = append(res.Fatal, vc.fatal...)
	res.Preamble = vc.preamble()
	return res
}

// pkgSees: an assume line applies to its own package and to packages importing it.
func pkgSees(user, decl *types.Package) bool {
	if decl == nil || user == decl {
		return true
	}
	seen := map[*types.Package]bool{}
	var walk func(p *types.Package) bool
	walk = func(p *types.Package) bool {
		if p == decl {
			return true
		}
		if seen[p] {
			return false
		}
		seen[p] = true
		for _, i := range p.Imports() {
			if walk(i) {
				return true
			}
		}
		return false
	}
	return walk(user)
}

// verifySpec verifies a function or closure body against a closure specification.
func (p *Program) verifySpec(sc specCheck) *FuncResult {
	name := p.funcName(sc.fn)
	c := *sc.spec
	c.Kind = "func"
	c.Alias = sc.spec.Params
	c.SpecOf = sc.spec.Name
	c.Name = name
	if own := p.contracts.Funcs[name]; own != nil {
		// the function's own contract supplies the proof hints (loop invariants) and further clauses
		c.LoopInv, c.LoopDec = own.LoopInv, own.LoopDec
		c.Requires = append(append([]*Clause{}, c.Requires...), own.Requires...)
		c.Captures = own.Captures
	}
	if c.LoopInv == nil {
		c.LoopInv, c.LoopDec = map[int][]*Clause{}, map[int]*Clause{}
	}
	if _, ok := p.funcs[name]; !ok {
		p.funcs[name] = sc.fn
	}
	r := p.verifyFunc(name, &c)
	r.Name = name + " as " + sc.spec.Name
	for _, o := range r.Obligations {
		o.Name = strings.Replace(o.Name, name+"#", name+"@"+sc.spec.Name+"#", 1)
	}
	return r
}
