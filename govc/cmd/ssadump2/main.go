package main

import (
	"fmt"
	"os"
	"strings"

	"golang.org/x/tools/go/packages"
	"golang.org/x/tools/go/ssa"
	"golang.org/x/tools/go/ssa/ssautil"
)

func main() {
	dir := os.Args[1]
	pat := os.Args[2]
	fn := os.Args[3]
	cfg := &packages.Config{Mode: packages.LoadAllSyntax, Dir: dir, BuildFlags: []string{"-tags=verif"}}
	pkgs, err := packages.Load(cfg, pat)
	if err != nil {
		panic(err)
	}
	prog, spkgs := ssautil.AllPackages(pkgs, ssa.NaiveForm|ssa.GlobalDebug|ssa.InstantiateGenerics)
	prog.Build()
	for _, p := range spkgs {
		if p == nil {
			continue
		}
		for _, m := range p.Members {
			if f, ok := m.(*ssa.Function); ok {
				dump(f, fn)
			}
			if t, ok := m.(*ssa.Type); ok {
				for _, tt := range []interface{ NumMethods() int }{} {
					_ = tt
				}
				ms := prog.MethodSets.MethodSet(t.Type())
				for i := 0; i < ms.Len(); i++ {
					dump(prog.MethodValue(ms.At(i)), fn)
				}
				ms = prog.MethodSets.MethodSet(ptrTo(t))
				for i := 0; i < ms.Len(); i++ {
					dump(prog.MethodValue(ms.At(i)), fn)
				}
			}
		}
	}
}

var seen = map[*ssa.Function]bool{}

func dump(f *ssa.Function, fn string) {
	if f == nil || seen[f] {
		return
	}
	seen[f] = true
	if strings.Contains(f.String(), fn) {
		fmt.Println("=====", f.String(), "synthetic:", f.Synthetic)
		f.WriteTo(os.Stdout)
	}
	for _, a := range f.AnonFuncs {
		dump(a, fn)
	}
}
