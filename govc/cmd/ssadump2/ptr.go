package main

import (
	"go/types"

	"golang.org/x/tools/go/ssa"
)

func ptrTo(t *ssa.Type) types.Type { return types.NewPointer(t.Type()) }
