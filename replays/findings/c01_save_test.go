package vm_test

// Replay of the C01 findings on OP_SAVE against the real compiler and VM.
// Run (nothing is written into /repo):
//   cd /repo && go test -overlay <ov.json> -vet=off -timeout 60s -run TestC01Save ./internal/machine/vm/

import (
	"context"
	"math/big"
	"testing"

	ledger "github.com/formancehq/ledger/internal"
	"github.com/formancehq/ledger/internal/machine/script/compiler"
	"github.com/formancehq/ledger/internal/machine/vm"
)

func runScript(t *testing.T, script string, vars map[string]string, balances map[string]map[string]int64) (*vm.Machine, error) {
	p, err := compiler.Compile(script)
	if err != nil {
		t.Fatalf("compile: %v", err)
	}
	m := vm.NewMachine(*p)
	if err := m.SetVarsFromJSON(vars); err != nil {
		return m, err
	}
	store := vm.StaticStore{}
	for acc, bs := range balances {
		a := &vm.AccountWithBalances{Account: ledger.Account{Address: acc}, Balances: map[string]*big.Int{}}
		for asset, b := range bs {
			a.Balances[asset] = big.NewInt(b)
		}
		store[acc] = a
	}
	if _, _, err := m.ResolveResources(context.Background(), store); err != nil {
		return m, err
	}
	if err := m.ResolveBalances(context.Background(), store); err != nil {
		return m, err
	}
	return m, m.Execute()
}

// overdrawn reports whether applying the postings in order to the initial balances
// takes some account other than world below -(granted overdraft).
func overdrawn(m *vm.Machine, balances map[string]map[string]int64, granted int64) (string, bool) {
	cur := map[string]int64{}
	for acc, bs := range balances {
		for asset, b := range bs {
			cur[acc+"/"+asset] = b
		}
	}
	for _, p := range m.Postings {
		amt := (*big.Int)(p.Amount).Int64()
		cur[p.Source+"/"+p.Asset] -= amt
		if p.Source != "world" && cur[p.Source+"/"+p.Asset] < -granted && cur[p.Source+"/"+p.Asset] < balances[p.Source][p.Asset] {
			return p.Source, true
		}
		cur[p.Destination+"/"+p.Asset] += amt
	}
	return "", false
}

// save [COIN *] on an account whose balance is negative sets the tracked balance to 0,
// i.e. raises it; the following bounded-overdraft send is then accepted beyond the grant.
func TestC01SaveAllOnNegativeBalance(t *testing.T) {
	balances := map[string]map[string]int64{"alice": {"COIN": -50}}
	m, err := runScript(t, `
save [COIN *] from @alice
send [COIN 30] (
  source = @alice allowing overdraft up to [COIN 30]
  destination = @bob
)`, nil, balances)
	if err != nil {
		return // rejected: fine
	}
	if acc, bad := overdrawn(m, balances, 30); bad {
		t.Fatalf("accepted, and %s ends below its balance plus the granted overdraft: postings=%v", acc, m.Postings)
	}
}

// save of a negative monetary (obtained by subtraction) raises the tracked balance.
func TestC01SaveNegativeMonetary(t *testing.T) {
	balances := map[string]map[string]int64{"alice": {"COIN": 0}}
	m, err := runScript(t, `
vars {
  monetary $a
  monetary $b
}
save $a - $b from @alice
send [COIN 100] (
  source = @alice
  destination = @bob
)`, map[string]string{"a": "COIN 0", "b": "COIN 100"}, balances)
	if err != nil {
		return
	}
	if acc, bad := overdrawn(m, balances, 0); bad {
		t.Fatalf("accepted, and %s is overdrawn: postings=%v", acc, m.Postings)
	}
}
