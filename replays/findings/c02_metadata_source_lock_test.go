package vm

// C02 replay: the accounts the command engine locks for writing are the ones ResolveResources reports as
// involved sources. A source account that comes from account metadata (a `meta()` variable of type account)
// must be among them under its real address.

import (
	"context"
	"math/big"
	"testing"

	ledger "github.com/formancehq/ledger/internal"
	"github.com/formancehq/ledger/internal/machine/script/compiler"
	"github.com/formancehq/stack/libs/go-libs/metadata"
)

func TestC02SourceTakenFromMetadataIsLocked(t *testing.T) {
	script := `
vars {
	account $owner
	account $wallet = meta($owner, "wallet")
}
send [USD/2 10] (
	source = $wallet
	destination = @shop
)`
	p, err := compiler.Compile(script)
	if err != nil {
		t.Fatal(err)
	}
	m := NewMachine(*p)
	if err := m.SetVarsFromJSON(map[string]string{"owner": "alice"}); err != nil {
		t.Fatal(err)
	}
	store := StaticStore{
		"alice":        &AccountWithBalances{Account: ledger.Account{Address: "alice", Metadata: metadata.Metadata{"wallet": "alice:wallet"}}, Balances: map[string]*big.Int{}},
		"alice:wallet": &AccountWithBalances{Account: ledger.Account{Address: "alice:wallet"}, Balances: map[string]*big.Int{"USD/2": big.NewInt(100)}},
	}
	_, sources, err := m.ResolveResources(context.Background(), store)
	if err != nil {
		t.Fatal(err)
	}
	found := false
	for _, s := range sources {
		if s == "alice:wallet" {
			found = true
		}
	}
	if !found {
		t.Fatalf("the source account alice:wallet is not among the accounts to lock for writing: %q", sources)
	}
}
