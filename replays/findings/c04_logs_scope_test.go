package ledgerstore

// C04 replay: the log listing of one ledger must read that ledger's rows only. Ledgers of one bucket share
// the logs table; every other read query carries a `ledger = ?` predicate bound to the store's name.

import (
	"database/sql"
	"strings"
	"testing"

	"github.com/uptrace/bun"
	"github.com/uptrace/bun/dialect/pgdialect"
)

func TestC04LogsListingReadsOneLedger(t *testing.T) {
	db := bun.NewDB(sql.OpenDB(nil), pgdialect.New())
	store := &Store{name: "ledger-a"}
	text := db.NewSelect().Apply(store.logsQueryBuilder(PaginatedQueryOptions[any]{})).String()
	if !strings.Contains(text, `ledger = 'ledger-a'`) {
		t.Fatalf("GetLogs of ledger-a reads the logs of every ledger in the bucket: %s", text)
	}
}
