package command

// Replay of the C05 finding: chaining a log and enqueueing it are two critical sections,
// so concurrent writers can hand their logs to the batcher in an order different from the
// order of their ids; the store then receives ids out of order.
// (A stress schedule: the window is between chainLog and Batcher.Append in AppendLog.)

import (
	"context"
	"math/big"
	"sync"
	"testing"

	ledger "github.com/formancehq/ledger/internal"
	"github.com/formancehq/ledger/internal/bus"
	"github.com/formancehq/ledger/internal/storage"
	"github.com/formancehq/stack/libs/go-libs/logging"
	"github.com/formancehq/stack/libs/go-libs/metadata"
)

type orderStore struct {
	*storage.InMemoryStore
	mu  sync.Mutex
	ids []int64
}

func (o *orderStore) InsertLogs(ctx context.Context, logs ...*ledger.ChainedLog) error {
	o.mu.Lock()
	defer o.mu.Unlock()
	for _, l := range logs {
		o.ids = append(o.ids, l.ID.Int64())
	}
	return o.InMemoryStore.InsertLogs(ctx, logs...)
}

func TestFindingLogsInsertedOutOfOrder(t *testing.T) {
	for round := 0; round < 200; round++ {
		st := &orderStore{InMemoryStore: storage.NewInMemoryStore()}
		ctx := logging.TestingContext()
		c := New(st, NoOpLocker, NewCompiler(16), NewReferencer(), bus.NewNoOpMonitor())
		go c.Run(ctx)
		var wg sync.WaitGroup
		for g := 0; g < 32; g++ {
			wg.Add(1)
			go func(g int) {
				defer wg.Done()
				for i := 0; i < 8; i++ {
					_ = c.SaveMeta(ctx, Parameters{}, ledger.MetaTargetTypeAccount, "acc", metadata.Metadata{"k": "v"})
				}
			}(g)
		}
		wg.Wait()
		c.Close()
		st.mu.Lock()
		for i, id := range st.ids {
			if id != int64(i) {
				t.Fatalf("round %d: the %d-th log inserted into the store has id %d (ids in insertion order: ... %v ...)", round, i, id, st.ids[max0(i-2):min0(i+3, len(st.ids))])
			}
		}
		st.mu.Unlock()
	}
	_ = big.NewInt
}

func max0(a int) int {
	if a < 0 {
		return 0
	}
	return a
}
func min0(a, b int) int {
	if a < b {
		return a
	}
	return b
}

// Fixed since: the transaction id was taken (nextTXID) in one critical section and the log is
// chained in another, so with writers on disjoint accounts the transaction ids need not increase in log order.
func TestFindingTxIDsNotInLogOrder(t *testing.T) {
	for round := 0; round < 300; round++ {
		st := storage.NewInMemoryStore()
		ctx := logging.TestingContext()
		c := New(st, NoOpLocker, NewCompiler(16), NewReferencer(), bus.NewNoOpMonitor())
		go c.Run(ctx)
		var wg sync.WaitGroup
		var mu sync.Mutex
		byLog := map[int64]int64{}
		for g := 0; g < 32; g++ {
			wg.Add(1)
			go func(g int) {
				defer wg.Done()
				for i := 0; i < 4; i++ {
					log, err := c.exec(ctx, Parameters{}, ledger.TxToScriptData(ledger.TransactionData{
						Postings: ledger.Postings{ledger.NewPosting("world", "bob", "COIN", big.NewInt(1))}}, false), ledger.NewTransactionLog)
					if err == nil {
						mu.Lock()
						byLog[log.ID.Int64()] = log.Data.(ledger.NewTransactionLogPayload).Transaction.ID.Int64()
						mu.Unlock()
					}
				}
			}(g)
		}
		wg.Wait()
		c.Close()
		for id := int64(0); id < int64(len(byLog)); id++ {
			if byLog[id] != id {
				t.Fatalf("round %d: log %d carries transaction id %d: transaction ids do not increase by one in log order", round, id, byLog[id])
			}
		}
	}
}
