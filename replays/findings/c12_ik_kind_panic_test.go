package command

// C12 / C07 replay: an idempotency key first used by a metadata write and then by a transaction. The engine finds
// the stored entry under the key and hands it back to CreateTransaction, which type-asserts it to a
// new-transaction payload: the request crashes the engine instead of ending with a result or a reported error.

import (
	"testing"

	ledger "github.com/formancehq/ledger/internal"
	"github.com/formancehq/ledger/internal/storage"
	"github.com/formancehq/stack/libs/go-libs/logging"
	"github.com/formancehq/stack/libs/go-libs/metadata"
)

func TestC12IdempotencyKeyOfAnotherKindCrashesCreateTransaction(t *testing.T) {
	store := storage.NewInMemoryStore()
	ctx := logging.TestingContext()
	c := New(store, NoOpLocker, NewCompiler(16), NewReferencer(), &recMonitor{})
	go c.Run(ctx)
	defer c.Close()
	if err := c.SaveMeta(ctx, Parameters{IdempotencyKey: "k1"}, ledger.MetaTargetTypeAccount, "bob", metadata.Metadata{"a": "b"}); err != nil {
		t.Fatal(err)
	}
	defer func() {
		if r := recover(); r != nil {
			t.Fatalf("CreateTransaction under a key already used by a metadata write panicked: %v", r)
		}
	}()
	_, err := c.CreateTransaction(ctx, Parameters{IdempotencyKey: "k1"}, send(10, "world"))
	t.Logf("ended with err=%v", err)
}
