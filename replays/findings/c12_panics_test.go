package vm

// C12 replay: scripts that are accepted by the compiler and crash the engine (panic) instead of
// ending with a result or a reported error.

import (
	"context"
	"fmt"
	"math/big"
	"testing"

	ledger "github.com/formancehq/ledger/internal"
	"github.com/formancehq/ledger/internal/machine/script/compiler"
)

func c12Run(script string, vars map[string]string, store Store) (res *Result, err error, panicked any) {
	defer func() {
		if r := recover(); r != nil {
			panicked = r
		}
	}()
	p, cerr := compiler.Compile(script)
	if cerr != nil {
		_ = cerr.Error()
		return nil, cerr, nil
	}
	m := NewMachine(*p)
	if err := m.SetVarsFromJSON(vars); err != nil {
		return nil, err, nil
	}
	if _, _, err := m.ResolveResources(context.Background(), store); err != nil {
		return nil, err, nil
	}
	if err := m.ResolveBalances(context.Background(), store); err != nil {
		return nil, err, nil
	}
	r, rerr := Run(m, ledger.RunScript{Script: ledger.Script{Plain: script, Vars: vars}})
	return r, rerr, nil
}

func c12Store() Store {
	return StaticStore{
		"alice": &AccountWithBalances{Account: ledger.Account{Address: "alice"}, Balances: map[string]*big.Int{"USD/2": big.NewInt(1000)}},
		"bob":   &AccountWithBalances{Account: ledger.Account{Address: "bob"}, Balances: map[string]*big.Int{"USD/2": big.NewInt(5)}},
	}
}

func c12Expect(t *testing.T, name, script string, vars map[string]string) {
	t.Run(name, func(t *testing.T) {
		_, err, p := c12Run(script, vars, c12Store())
		if p != nil {
			t.Errorf("the engine panicked: %v", p)
			return
		}
		t.Logf("ended with err=%v", err)
	})
}

func TestC12SaveFromAccountThatIsNoSource(t *testing.T) {
	c12Expect(t, "save from an account that is never a source", `
save [USD/2 10] from @carol
send [USD/2 1] (
	source = @alice
	destination = @bob
)`, nil)
	c12Expect(t, "save all from an account that is never a source", `
save [USD/2 *] from @carol
send [USD/2 1] (
	source = @alice
	destination = @bob
)`, nil)
}

func TestC12TwoBalanceLookupsOnOneAccount(t *testing.T) {
	c12Expect(t, "two balance() variables on one account", `
vars {
	monetary $a = balance(@alice, USD/2)
	monetary $b = balance(@alice, EUR/2)
}
send $a (
	source = @alice
	destination = @bob
)`, nil)
	c12Expect(t, "the same balance() twice", `
vars {
	monetary $a = balance(@alice, USD/2)
	monetary $b = balance(@alice, USD/2)
}
send $b (
	source = @alice
	destination = @bob
)`, nil)
}

func TestC12SourceAllotmentNotSummingToOne(t *testing.T) {
	c12Expect(t, "source portions sum to less than one", `
send [USD/2 100] (
	source = {
		1/2 from @alice
		1/4 from @bob
	}
	destination = @carol
)`, nil)
	c12Expect(t, "source portions sum to more than one", `
send [USD/2 100] (
	source = {
		1/2 from @alice
		3/4 from @bob
	}
	destination = @carol
)`, nil)
}

func TestC12CompileErrorReport(t *testing.T) {
	for i, s := range []string{"send [USD/2 1] (\r\n source = \r\n", "\r\nfoo", "send\r\n\r\n(", "vars {\r\n account $a\r\n}\r\nsend $a (\r\n"} {
		c12Expect(t, fmt.Sprintf("crlf script %d", i), s, nil)
	}
}

func TestC12NullNumberVariable(t *testing.T) {
	c12Expect(t, "number variable given as JSON null, used in arithmetic", `
vars {
	number $n
}
set_tx_meta("k", $n + 1)
send [USD/2 1] (
	source = @alice
	destination = @bob
)`, map[string]string{"n": "null"})
	c12Expect(t, "number variable given as JSON null, stored as metadata", `
vars {
	number $n
}
set_tx_meta("k", $n)
send [USD/2 1] (
	source = @alice
	destination = @bob
)`, map[string]string{"n": "null"})
}
