package ledger

// Replay of the C13 finding: a persisted delete-metadata log cannot be read back.

import (
	"encoding/json"
	"math/big"
	"testing"
)

func TestFindingDeleteMetadataLogCannotBeHydrated(t *testing.T) {
	log := NewDeleteMetadataLog(Now(), DeleteMetadataLogPayload{TargetType: MetaTargetTypeAccount, TargetID: "alice", Key: "k"})
	data, err := json.Marshal(log.Data)
	if err != nil {
		t.Fatal(err)
	}
	defer func() {
		if r := recover(); r != nil {
			t.Fatalf("reading back a %s entry panics: %v", log.Type, r)
		}
	}()
	payload, err := HydrateLog(log.Type, data)
	if err != nil {
		t.Fatal(err)
	}
	if p, ok := payload.(DeleteMetadataLogPayload); !ok || p.Key != "k" {
		t.Fatalf("round trip changed the payload: %#v", payload)
	}
}

// Known finding (not repaired): the target id of a set-metadata-on-transaction entry is written as *big.Int
// and decoded as uint64, so the round-tripped entry differs from the written one (and ids >= 2^64 fail to decode).
func TestFindingTransactionTargetIDChangesType(t *testing.T) {
	written := NewSetMetadataOnTransactionLog(Now(), bigOne(), nil)
	data, err := json.Marshal(written.Data)
	if err != nil {
		t.Fatal(err)
	}
	payload, err := HydrateLog(written.Type, data)
	if err != nil {
		t.Fatal(err)
	}
	got := payload.(SetMetadataLogPayload).TargetID
	want := written.Data.(SetMetadataLogPayload).TargetID
	if _, same := got.(interface{ Cmp(*bigInt) int }); !same {
		t.Fatalf("target id written as %T comes back as %T", want, got)
	}
}

type bigInt = big.Int

func bigOne() *big.Int { return big.NewInt(1) }
