package command

// Replay of the C15 finding: a request cancelled at the moment it is granted returns an error
// (so the caller never unlocks) while the lock manager has already recorded its locks: the
// accounts stay locked for ever. Stress schedule: release and cancellation race.

import (
	"context"
	"testing"
	"time"

	"github.com/formancehq/stack/libs/go-libs/logging"
)

func TestFindingCancelledRequestLeavesLockBehind(t *testing.T) {
	for round := 0; round < 2000; round++ {
		locker := NewDefaultLocker()
		bg := logging.TestingContext()
		unlockHolder, err := locker.Lock(bg, Accounts{Write: []string{"a"}})
		if err != nil {
			t.Fatal(err)
		}
		ctx, cancel := context.WithCancel(bg)
		res := make(chan error, 1)
		var unlockWaiter Unlock
		go func() {
			u, err := locker.Lock(ctx, Accounts{Write: []string{"a"}})
			unlockWaiter = u
			res <- err
		}()
		// let the waiter queue up
		for i := 0; i < 1000 && locker.intents.Length() == 0; i++ {
			time.Sleep(10 * time.Microsecond)
		}
		go unlockHolder(bg) // grants the waiter ...
		cancel()            // ... while it is being cancelled
		if err := <-res; err == nil {
			unlockWaiter(bg) // it got the lock: a correct caller releases it
		}
		// nobody holds anything now: a new request must be granted
		done := make(chan struct{})
		go func() {
			u, err := locker.Lock(bg, Accounts{Write: []string{"a"}})
			if err == nil {
				u(bg)
			}
			close(done)
		}()
		select {
		case <-done:
		case <-time.After(500 * time.Millisecond):
			t.Fatalf("round %d: the cancelled request reported an error but left account \"a\" write-locked: a new request is never granted", round)
		}
	}
}
