// Replay of the C17 finding repaired by fix commit 65e8fce: a cursor token of a filtered list was rejected when handed back
// (the filter, an interface value, was encoded as {} and could not be decoded). Run: selftest/replay.sh replays/findings/c17_cursor_filter_roundtrip_test.go internal/api/v2 TestC17CursorFilterRoundTrip

package v2_test

import (
	"fmt"
	"testing"

	"github.com/formancehq/ledger/internal/storage/ledgerstore"
	"github.com/formancehq/stack/libs/go-libs/bun/bunpaginate"
	"github.com/formancehq/stack/libs/go-libs/query"
)

func render(t *testing.T, b query.Builder) string {
	if b == nil {
		return "<nil>"
	}
	s, args, err := b.Build(query.ContextFn(func(key, operator string, value any) (string, []any, error) {
		return fmt.Sprintf("%s %s ?", key, operator), []any{value}, nil
	}))
	if err != nil {
		t.Fatal(err)
	}
	return fmt.Sprintf("%s %v", s, args)
}

func TestC17CursorFilterRoundTrip(t *testing.T) {
	for name, qb := range map[string]query.Builder{
		"none":  nil,
		"match": query.Match("reference", "x"),
		"nested": query.And(
			query.Match("account", "users:"),
			query.Not(query.Match("balance", "100")),
			query.Or(query.Gte("balance[USD]", "3"), query.Lt("metadata[a]", "b")),
		),
		"empty-and": query.And(),
	} {
		q := ledgerstore.NewGetTransactionsQuery(ledgerstore.NewPaginatedQueryOptions(ledgerstore.PITFilterWithVolumes{ExpandVolumes: true}).
			WithQueryBuilder(qb).WithPageSize(7))
		tok := bunpaginate.EncodeCursor(q)
		var back ledgerstore.GetTransactionsQuery
		if err := bunpaginate.UnmarshalCursor(tok, &back); err != nil {
			t.Fatalf("%s: token handed out by the server is not accepted back: %v", name, err)
		}
		if render(t, back.Options.QueryBuilder) != render(t, qb) {
			t.Fatalf("%s: filter changed: %s vs %s", name, render(t, back.Options.QueryBuilder), render(t, qb))
		}
		if back.Options.PageSize != 7 || !back.Options.Options.ExpandVolumes || back.PageSize != q.PageSize {
			t.Fatalf("%s: options changed: %+v", name, back)
		}
		if bunpaginate.EncodeCursor(back) != tok {
			t.Fatalf("%s: second encoding differs", name)
		}
	}
}
