package v2_test

// Replay of the C18 finding: an element whose action is none of the four known ones is
// skipped without a result, so later answers no longer sit at their element's position.

import (
	"context"
	"testing"

	ledger "github.com/formancehq/ledger/internal"
	"github.com/formancehq/ledger/internal/api/backend"
	v2 "github.com/formancehq/ledger/internal/api/v2"
	"go.uber.org/mock/gomock"
)

func TestC18UnknownActionKeepsPositions(t *testing.T) {
	ctrl := gomock.NewController(t)
	l := backend.NewMockLedger(ctrl)
	l.EXPECT().CreateTransaction(gomock.Any(), gomock.Any(), gomock.Any()).AnyTimes().Return(&ledger.Transaction{}, nil)
	body := v2.Bulk{
		{Action: v2.ActionCreateTransaction, Data: []byte(`{"postings":[{"source":"world","destination":"a","amount":1,"asset":"USD"}]}`)},
		{Action: "NO_SUCH_ACTION", Data: []byte(`{}`)},
		{Action: v2.ActionCreateTransaction, Data: []byte(`{"postings":[{"source":"world","destination":"b","amount":1,"asset":"USD"}]}`)},
	}
	ret, _, err := v2.ProcessBulk(context.Background(), l, body, true)
	if err != nil {
		return // rejected as a whole: fine
	}
	if len(ret) != len(body) {
		t.Fatalf("%d elements processed, %d results: the answer for element 2 sits at position %d", len(body), len(ret), len(ret)-1)
	}
}

// Known finding (not repaired): a malformed element after executed ones aborts the request
// with an error and no results, although the earlier elements were executed.
func TestC18MalformedElementAfterExecutedOnes(t *testing.T) {
	ctrl := gomock.NewController(t)
	l := backend.NewMockLedger(ctrl)
	calls := 0
	l.EXPECT().CreateTransaction(gomock.Any(), gomock.Any(), gomock.Any()).AnyTimes().DoAndReturn(
		func(ctx context.Context, p any, s any) (*ledger.Transaction, error) { calls++; return &ledger.Transaction{}, nil })
	body := v2.Bulk{
		{Action: v2.ActionCreateTransaction, Data: []byte(`{"postings":[{"source":"world","destination":"a","amount":1,"asset":"USD"}]}`)},
		{Action: v2.ActionCreateTransaction, Data: []byte(`{not json`)},
	}
	ret, _, err := v2.ProcessBulk(context.Background(), l, body, true)
	if err != nil && calls > 0 && len(ret) != calls {
		t.Fatalf("request rejected (%v) after %d element(s) were executed; %d results returned", err, calls, len(ret))
	}
}
