package ledgerstore

// C20 replay: the SQL the list filters produce must have the same structure whatever the client's
// text. The skeleton of a statement is its text with every quoted literal collapsed to '';
// a value that changes the skeleton has escaped its literal.

import (
	"database/sql"
	"strings"
	"testing"

	"github.com/formancehq/stack/libs/go-libs/query"
	"github.com/uptrace/bun"
	"github.com/uptrace/bun/dialect/pgdialect"
)

func c20Skeleton(s string) string {
	var b strings.Builder
	for i := 0; i < len(s); i++ {
		if s[i] != '\'' {
			b.WriteByte(s[i])
			continue
		}
		// quoted literal: up to the closing quote ('' is an escaped quote)
		j := i + 1
		for j < len(s) {
			if s[j] == '\'' {
				if j+1 < len(s) && s[j+1] == '\'' {
					j += 2
					continue
				}
				break
			}
			j++
		}
		b.WriteString("''")
		i = j
	}
	return b.String()
}

func c20Render(t *testing.T, where string, args []any) string {
	db := bun.NewDB(sql.OpenDB(nil), pgdialect.New())
	return db.NewSelect().Table("t").Where(where, args...).String()
}

func c20Check(t *testing.T, name string, build func(v string) (string, []any, error)) {
	harmless := "users:001"
	if strings.Contains(name, "segments") {
		harmless = "users::001"
	}
	w0, a0, err := build(harmless)
	if err != nil {
		t.Fatalf("%s: harmless value rejected: %v", name, err)
	}
	base := c20Skeleton(c20Render(t, w0, a0))
	for _, evil := range []string{
		"x' or '1'='1", "x'; drop table accounts; --", `x" || true || "`, `x\`, "x?", "a'b", `a" == "a" || "b`, "x/*", "é'è", `x\' or 1=1 --`,
	} {
		if strings.Contains(name, "segments") {
			evil = evil + "::z"
		}
		w, a, err := build(evil)
		if err != nil {
			continue // rejected as invalid: allowed by the property
		}
		got := c20Skeleton(c20Render(t, w, a))
		if got != base {
			t.Errorf("%s: value %q changes the statement\n harmless: %s\n got     : %s\n full    : %s", name, evil, base, got, c20Render(t, w, a))
		}
	}
}

func TestC20AccountAddressFilter(t *testing.T) {
	store := &Store{name: "l"}
	c20Check(t, "accounts address", func(v string) (string, []any, error) {
		return store.accountQueryContext(query.Match("address", v), GetAccountsQuery{})
	})
	c20Check(t, "accounts address segments", func(v string) (string, []any, error) {
		return store.accountQueryContext(query.Match("address", v), GetAccountsQuery{})
	})
}

func TestC20TransactionAccountFilter(t *testing.T) {
	store := &Store{name: "l"}
	for _, key := range []string{"account", "source", "destination"} {
		key := key
		c20Check(t, "transactions "+key, func(v string) (string, []any, error) {
			return store.transactionQueryContext(query.Match(key, v), GetTransactionsQuery{})
		})
		c20Check(t, "transactions "+key+" segments", func(v string) (string, []any, error) {
			return store.transactionQueryContext(query.Match(key, v), GetTransactionsQuery{})
		})
	}
}

func TestC20OtherFilters(t *testing.T) {
	store := &Store{name: "l"}
	c20Check(t, "accounts metadata value", func(v string) (string, []any, error) {
		return store.accountQueryContext(query.Match("metadata[k]", v), GetAccountsQuery{})
	})
	c20Check(t, "accounts metadata key", func(v string) (string, []any, error) {
		return store.accountQueryContext(query.Match("metadata["+v+"]", "x"), GetAccountsQuery{})
	})
	c20Check(t, "transactions reference", func(v string) (string, []any, error) {
		return store.transactionQueryContext(query.Match("reference", v), GetTransactionsQuery{})
	})
	c20Check(t, "transactions metadata key", func(v string) (string, []any, error) {
		return store.transactionQueryContext(query.Match("metadata["+v+"]", "x"), GetTransactionsQuery{})
	})
}
