package command

// Replays of the findings on the write path against the real engine.
// Injected with -overlay (selftest/replay.sh); nothing is written into /repo.

import (
	"context"
	"math/big"
	"sync"
	"testing"
	"time"

	ledger "github.com/formancehq/ledger/internal"
	"github.com/formancehq/ledger/internal/bus"
	"github.com/formancehq/ledger/internal/storage"
	"github.com/formancehq/stack/libs/go-libs/logging"
	"github.com/formancehq/stack/libs/go-libs/metadata"
)

// recMonitor records what is published.
type recMonitor struct {
	mu       sync.Mutex
	events   []string
	reverted []*big.Int
	reverts  []*big.Int
}

func (r *recMonitor) add(s string) { r.mu.Lock(); r.events = append(r.events, s); r.mu.Unlock() }
func (r *recMonitor) CommittedTransactions(ctx context.Context, res ledger.Transaction, am map[string]metadata.Metadata) {
	r.add("committed")
}
func (r *recMonitor) SavedMetadata(ctx context.Context, targetType, id string, m metadata.Metadata) {
	r.add("saved")
}
func (r *recMonitor) RevertedTransaction(ctx context.Context, reverted, revert *ledger.Transaction) {
	r.mu.Lock()
	r.reverted = append(r.reverted, reverted.ID)
	r.reverts = append(r.reverts, revert.ID)
	r.mu.Unlock()
	r.add("reverted")
}
func (r *recMonitor) DeletedMetadata(ctx context.Context, targetType string, targetID any, key string) {
	r.add("deleted")
}

var _ bus.Monitor = (*recMonitor)(nil)

// gateStore delays persistence until released, so that a second request can run
// while the first one is between "accepted" and "persisted".
type gateStore struct {
	*storage.InMemoryStore
	mu      sync.Mutex
	gate    chan struct{}
	entered chan struct{}
}

func newGateStore() *gateStore {
	return &gateStore{InMemoryStore: storage.NewInMemoryStore(), gate: make(chan struct{}), entered: make(chan struct{}, 16)}
}

func (g *gateStore) InsertLogs(ctx context.Context, logs ...*ledger.ChainedLog) error {
	g.entered <- struct{}{}
	<-g.gate
	g.mu.Lock()
	defer g.mu.Unlock()
	return g.InMemoryStore.InsertLogs(ctx, logs...)
}

func send(amount int64, from string) ledger.RunScript {
	return ledger.TxToScriptData(ledger.TransactionData{
		Postings: ledger.Postings{ledger.NewPosting(from, "bob", "COIN", big.NewInt(amount))},
	}, false)
}

// C14: a preview consumes a transaction id.
func TestFindingDryRunConsumesTxID(t *testing.T) {
	store := storage.NewInMemoryStore()
	ctx := logging.TestingContext()
	c := New(store, NoOpLocker, NewCompiler(16), NewReferencer(), bus.NewNoOpMonitor())
	go c.Run(ctx)
	defer c.Close()
	if _, err := c.CreateTransaction(ctx, Parameters{DryRun: true}, send(10, "world")); err != nil {
		t.Fatal(err)
	}
	tx, err := c.CreateTransaction(ctx, Parameters{}, send(10, "world"))
	if err != nil {
		t.Fatal(err)
	}
	if tx.ID.Cmp(big.NewInt(0)) != 0 {
		t.Fatalf("the first real transaction after a preview got id %s, want 0: the preview consumed an id", tx.ID)
	}
}

// C14/C16: a preview publishes events.
func TestFindingDryRunPublishes(t *testing.T) {
	store := storage.NewInMemoryStore()
	ctx := logging.TestingContext()
	mon := &recMonitor{}
	c := New(store, NoOpLocker, NewCompiler(16), NewReferencer(), mon)
	go c.Run(ctx)
	defer c.Close()
	if _, err := c.CreateTransaction(ctx, Parameters{}, send(10, "world")); err != nil {
		t.Fatal(err)
	}
	before := len(mon.events)
	_, _ = c.CreateTransaction(ctx, Parameters{DryRun: true}, send(10, "world"))
	_ = c.SaveMeta(ctx, Parameters{DryRun: true}, ledger.MetaTargetTypeAccount, "bob", metadata.Metadata{"a": "b"})
	_ = c.DeleteMetadata(ctx, Parameters{DryRun: true}, ledger.MetaTargetTypeAccount, "bob", "a")
	_, _ = c.RevertTransaction(ctx, Parameters{DryRun: true}, big.NewInt(0), true)
	if len(mon.events) != before {
		t.Fatalf("previews published %d event(s): %v", len(mon.events)-before, mon.events[before:])
	}
}

// C16: the revert event names the wrong transactions.
func TestFindingRevertEventArguments(t *testing.T) {
	store := storage.NewInMemoryStore()
	ctx := logging.TestingContext()
	mon := &recMonitor{}
	c := New(store, NoOpLocker, NewCompiler(16), NewReferencer(), mon)
	go c.Run(ctx)
	defer c.Close()
	tx, err := c.CreateTransaction(ctx, Parameters{}, send(10, "world"))
	if err != nil {
		t.Fatal(err)
	}
	rev, err := c.RevertTransaction(ctx, Parameters{}, tx.ID, true)
	if err != nil {
		t.Fatal(err)
	}
	if len(mon.reverted) != 1 || mon.reverted[0].Cmp(tx.ID) != 0 || mon.reverts[0].Cmp(rev.ID) != 0 {
		t.Fatalf("revert of %s by %s was published as reverted=%v revert=%v", tx.ID, rev.ID, mon.reverted, mon.reverts)
	}
}

// C07: set/delete metadata ignore the idempotency key.
func TestFindingMetadataIgnoresIdempotencyKey(t *testing.T) {
	store := storage.NewInMemoryStore()
	ctx := logging.TestingContext()
	c := New(store, NoOpLocker, NewCompiler(16), NewReferencer(), bus.NewNoOpMonitor())
	go c.Run(ctx)
	defer c.Close()
	for i := 0; i < 2; i++ {
		if err := c.SaveMeta(ctx, Parameters{IdempotencyKey: "k1"}, ledger.MetaTargetTypeAccount, "bob", metadata.Metadata{"a": "b"}); err != nil {
			t.Fatal(err)
		}
	}
	last, _ := store.GetLastLog(ctx)
	if last.ID.Cmp(big.NewInt(0)) != 0 {
		t.Fatalf("two SaveMeta with the same idempotency key wrote %d log entries", last.ID.Int64()+1)
	}
}

// C02: two requests racing for the same funds are both accepted although the account
// lock is a real DefaultLocker: the lock is released before the first log is persisted.
func TestFindingDoubleSpend(t *testing.T) {
	gs := newGateStore()
	ctx := logging.TestingContext()
	// alice holds 100
	close(gs.gate)
	c0 := New(gs, NewDefaultLocker(), NewCompiler(16), NewReferencer(), bus.NewNoOpMonitor())
	go c0.Run(ctx)
	if _, err := c0.CreateTransaction(ctx, Parameters{}, send(100, "world")); err != nil {
		t.Fatal(err)
	}
	// (bob received it; give alice her funds)
	if _, err := c0.CreateTransaction(ctx, Parameters{}, ledger.TxToScriptData(ledger.TransactionData{
		Postings: ledger.Postings{ledger.NewPosting("world", "alice", "COIN", big.NewInt(100))}}, false)); err != nil {
		t.Fatal(err)
	}
	gs.gate = make(chan struct{})
	for len(gs.entered) > 0 {
		<-gs.entered
	}
	errs := make(chan error, 2)
	go func() { _, err := c0.CreateTransaction(ctx, Parameters{}, send(100, "alice")); errs <- err }()
	<-gs.entered // first request is accepted and waits for persistence
	second := make(chan error, 1)
	go func() { _, err := c0.CreateTransaction(ctx, Parameters{}, send(100, "alice")); second <- err }()
	// let the second request run as far as it can while the first is not yet persisted
	time.Sleep(300 * time.Millisecond)
	close(gs.gate)
	accepted := 0
	if err := <-errs; err == nil {
		accepted++
	}
	if err := <-second; err == nil {
		accepted++
	}
	c0.Close()
	if accepted > 1 {
		bal, _ := gs.GetBalance(ctx, "alice", "COIN")
		t.Fatalf("both sends of 100 from an account holding 100 were accepted; balance now %s", bal)
	}
}

// C11: two requests with the same reference are both committed.
func TestFindingDuplicateReference(t *testing.T) {
	gs := newGateStore()
	ctx := logging.TestingContext()
	c0 := New(gs, NoOpLocker, NewCompiler(16), NewReferencer(), bus.NewNoOpMonitor())
	go c0.Run(ctx)
	mk := func() ledger.RunScript { s := send(1, "world"); s.Reference = "ref1"; return s }
	errs := make(chan error, 2)
	go func() { _, err := c0.CreateTransaction(ctx, Parameters{}, mk()); errs <- err }()
	<-gs.entered
	go func() { _, err := c0.CreateTransaction(ctx, Parameters{}, mk()); errs <- err }()
	select {
	case <-gs.entered:
	case <-time.After(500 * time.Millisecond):
	}
	close(gs.gate)
	ok := 0
	for i := 0; i < 2; i++ {
		select {
		case err := <-errs:
			if err == nil {
				ok++
			}
		case <-time.After(2 * time.Second):
		}
	}
	c0.Close()
	if ok > 1 {
		t.Fatalf("reference ref1 was committed %d times", ok)
	}
}

// Known finding (C07/C16): an idempotency key first used by one kind of write and then by
// another: the second write reports success and publishes its own event although its effect
// never happened (the stored entry is of the other kind).
func TestFindingIdempotencyKeyAcrossKinds(t *testing.T) {
	store := storage.NewInMemoryStore()
	ctx := logging.TestingContext()
	mon := &recMonitor{}
	c := New(store, NoOpLocker, NewCompiler(16), NewReferencer(), mon)
	go c.Run(ctx)
	defer c.Close()
	if _, err := c.CreateTransaction(ctx, Parameters{IdempotencyKey: "k1"}, send(10, "world")); err != nil {
		t.Fatal(err)
	}
	err := c.SaveMeta(ctx, Parameters{IdempotencyKey: "k1"}, ledger.MetaTargetTypeAccount, "bob", metadata.Metadata{"a": "b"})
	last, _ := store.GetLastLog(ctx)
	if err == nil && last.Type != ledger.SetMetadataLogType {
		t.Fatalf("SaveMeta under a key already used by a transaction reported success and published %v, but no metadata entry exists (last log is %s)", mon.events, last.Type)
	}
}
