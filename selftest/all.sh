#!/bin/bash
# runs the 20 registered checks (quick tier unless a tier is given), four at a time; prints one line per property
cd /verif
tier=${1:-quick}
for i in $(seq -w 1 20); do echo C$i; done | xargs -P 4 -I{} sh -c "bin/govc check {} --tier $tier 2>&1 | grep '^VIOLATION\|^KNOWN\|^property\|^  obligation' | cut -c1-260"
