#!/bin/bash
# usage: harvest.sh <ID> <name> <property expectations...>
# collects a sub-agent's seeded change from /tmp/seed/<ID> into /verif/seeded/<name>/, re-verifies
# (compiles, suite of the touched package passes, demo fails with / passes without), runs our checks.
export GOFLAGS=-mod=mod GOPROXY=off GOSUMDB=off GOTOOLCHAIN=local
id=$1; name=$2; shift 2
w=${SEED_DIR:-/tmp/seed}/$id; d=/verif/seeded/$name; mkdir -p $d
cd $w || exit 1
git diff -- . ':!*_verif.go' ':!*_test.go' > $d/patch.diff
demo=$(git status --porcelain | grep '^??' | awk '{print $2}' | grep '_test.go$' | head -5)
for f in $demo; do mkdir -p $d/demo/$(dirname $f); cp $f $d/demo/$f; done
cp SEED_REPORT.md $d/ 2>/dev/null
echo "patch: $(grep -c '^[-+][^-+]' $d/patch.diff) changed lines in $(grep -c '^diff' $d/patch.diff) file(s); demo: $demo"
# re-verify in a scratch copy of /repo (current HEAD incl. contracts)
s=$(mktemp -d /tmp/harvest.XXXX); rsync -a --exclude .git /repo/ $s/
for f in $demo; do mkdir -p $s/$(dirname $f); cp $w/$f $s/$f; done
pk=$(for f in $demo; do echo ./$(dirname $f)/; done | sort -u | tr '\n' ' ')
echo "--- demo WITHOUT the change (must pass):"; (cd $s && go test -vet=off -count=1 -run 'Seed|seed' $pk 2>&1 | tail -3)
(cd $s && patch -p1 -s < $d/patch.diff) || { echo "PATCH DOES NOT APPLY to /repo HEAD"; rm -rf $s; exit 1; }
echo "--- build WITH the change:"; (cd $s && go build ./... 2>&1 | tail -3)
echo "--- demo WITH the change (must fail):"; (cd $s && go test -vet=off -count=1 -run 'Seed|seed' $pk 2>&1 | grep -v "level=" | tail -4 | cut -c1-200)
for f in $demo; do rm -f $s/$f; done
echo "--- existing suite WITH the change:"; (cd $s && go test -vet=off -count=1 ./internal/... 2>&1 | grep -v "no test files\|^ok\|internal/storage" | tail -5)
printf "%s\n" "$@" > $d/expect.txt
echo "--- our checks:"
for e in "$@"; do p=${e%% *}; out=$(cd /verif && bin/govc check $p --repo $s --evidence-dir /tmp/harvest-ev 2>&1); echo "$out" | grep "^VIOLATION\|^  obligation\|^property" | cut -c1-220 | head -6; done
rm -rf $s /tmp/harvest-ev
