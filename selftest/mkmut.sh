mkmut () 
{ 
    name=$1;
    s=$(mktemp -d /tmp/mk.XXXX);
    rsync -a --exclude .git /repo/ $s/;
    ( cd $s && python3 -c "$2" );
    d=/verif/selftest/mutants/$name;
    mkdir -p $d;
    ( cd /tmp && diff -ruN --exclude=.git /repo $s | sed "s|^--- /repo/|--- a/|; s|^+++ $s/|+++ b/|; s|^diff -ruN.*||" ) > $d/patch.diff;
    shift 2;
    printf "%s\n" "$@" > $d/expect.txt;
    rm -rf $s;
    echo "$name $(grep -c '^[-+]' $d/patch.diff) changed lines"
}
