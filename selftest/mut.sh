#!/bin/bash
# usage: mut.sh <file-relative-to-repo> <sed-expr> <govc dev args...>
# copies /repo to a scratch dir, applies the sed expression, runs govc dev on the copy
set -e
f=$1; e=$2; shift 2
d=$(mktemp -d /tmp/mutrepo.XXXX)
rsync -a --exclude .git /repo/ $d/
sed -i "$e" $d/$f
if diff -q /repo/$f $d/$f >/dev/null; then echo "MUTATION DID NOT APPLY"; rm -rf $d; exit 3; fi
(cd $d && go build ./... 2>&1 | head -5)
/verif/bin/govc dev --repo $d "$@" 2>&1 | grep -v "^  ok" | head -${LINES_MAX:-25}
rm -rf $d
