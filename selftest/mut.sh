#!/bin/bash
# usage: mut.sh <file-relative-to-repo> <sed-expr> <govc dev args...>
# copies /repo to a scratch dir, applies the sed expression, runs govc dev on the copy
set -e
f=$1; e=$2; shift 2
d=$(mktemp -d /tmp/mutrepo.XXXX)
rsync -a --exclude .git /repo/ $d/
sed -i "$e" $d/$f
if diff -q /repo/$f $d/$f >/dev/null; then echo "MUTATION DID NOT APPLY"; rm -rf $d; exit 3; fi
if ! (cd $d && go build ./... >/dev/null 2>&1); then echo "MUTANT DOES NOT COMPILE"; rm -rf $d; exit 4; fi
/verif/bin/govc dev --repo $d "$@" 2>&1 | grep -v "^  ok" | cut -c1-300 | head -${LINES_MAX:-25}
rm -rf $d
