#!/bin/bash
# usage: refac.sh <dir with refac_*.patch>   each patch is a behaviour-preserving edit: every check must stay green
export GOFLAGS=-mod=mod GOPROXY=off GOSUMDB=off GOTOOLCHAIN=local
cd /verif
for pf in $1/refac_*.patch; do
  s=$(mktemp -d /tmp/refac-run.XXXX); rsync -a --exclude .git /repo/ $s/
  if ! (cd $s && patch -p1 -s < $pf); then echo "REFAC $(basename $pf): PATCH DOES NOT APPLY"; rm -rf $s; continue; fi
  if ! (cd $s && go build ./... >/dev/null 2>&1 && cd libs && go build ./... >/dev/null 2>&1); then echo "REFAC $(basename $pf): DOES NOT COMPILE"; rm -rf $s; continue; fi
  out=$(for i in $(seq -w 1 20); do echo C$i; done | xargs -P 8 -I{} sh -c "bin/govc check {} --repo $s --evidence-dir /tmp/refac-ev-{} 2>&1 | grep '^VIOLATION\|^  obligation' | cut -c1-300")
  rm -rf /tmp/refac-ev-C*
  if [ -z "$out" ]; then echo "REFAC $(basename $pf): all 20 green"; else echo "REFAC $(basename $pf): ALARM"; echo "$out" | grep obligation | head -6; fi
  rm -rf $s
done
