#!/bin/bash
# usage: replay.sh <test-file> <pkg-dir-relative-to-repo> <run-regexp> [repo]
# injects the test file into the package through -overlay; nothing is written to the repo
f=$1; pkg=$2; run=$3; repo=${4:-/repo}
export GOFLAGS=-mod=mod GOPROXY=off GOSUMDB=off GOTOOLCHAIN=local
ov=$(mktemp /tmp/ov.XXXX.json)
base=$(basename $f)
printf '{"Replace":{"%s/%s/zz_%s":"%s"}}' "$repo" "$pkg" "$base" "$f" > $ov
(cd $repo && go test -overlay $ov -vet=off -count=1 -timeout 60s -run "$run" ./$pkg/ 2>&1 | tail -${TAILN:-15})
rc=${PIPESTATUS[0]}
rm -f $ov
