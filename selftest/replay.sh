#!/bin/bash
# usage: replay.sh <test-file> <pkg-dir-relative-to-repo> <run-regexp> [repo]
# injects the test file into the package through -overlay; nothing is written to the repo
f=$1; pkg=$2; run=$3; repo=${4:-/repo}
export GOFLAGS=-mod=mod GOPROXY=off GOSUMDB=off GOTOOLCHAIN=local
ov=$(mktemp /tmp/ov.XXXX.json)
base=$(basename $f)
# REPLAY_DROP_TESTS=1: the package's own test files (a TestMain that needs Docker) are left out of the build
extra=""
if [ -n "$REPLAY_DROP_TESTS" ]; then
  for t in $repo/$pkg/*_test.go; do extra="$extra,\"$t\":\"\""; done
fi
printf '{"Replace":{"%s/%s/zz_%s":"%s"%s}}' "$repo" "$pkg" "$base" "$f" "$extra" > $ov
(cd $repo && go test -overlay $ov -vet=off -count=1 -timeout 60s -run "$run" ./$pkg/ 2>&1 | tail -${TAILN:-15})
rc=${PIPESTATUS[0]}
rm -f $ov
