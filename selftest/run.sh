#!/bin/bash
# Must-fail / must-pass corpus. For each mutant directory:
#   patch.diff   a change to /repo (applied to a scratch copy outside /repo and /verif)
#   expect.txt   lines "<property> <substring of the expected failing obligation>"  (must-fail)
#                or the single word "harmless <property>..." (the listed checks must stay green)
# usage: run.sh [name-substring]
#        run.sh --prop Cxx      only the expectations that concern that property (used by the thorough tier)
export GOFLAGS=-mod=mod GOPROXY=off GOSUMDB=off GOTOOLCHAIN=local
# SELFTEST_REPO / SELFTEST_VERIF: run against frozen copies (so that work can go on in /repo and /verif meanwhile)
R=${SELFTEST_REPO:-/repo}; V=${SELFTEST_VERIF:-/verif}
cd $V
onlyprop=""
if [ "$1" = "--prop" ]; then onlyprop=$2; set -- ""; fi
evd=/tmp/selftest-evidence${onlyprop:+-$onlyprop}-$$
fail=0; n=0
# SELFTEST_SHARD=i/n: only every n-th patch, starting at the i-th (several shards can run side by side)
shard_i=${SELFTEST_SHARD%%/*}; shard_n=${SELFTEST_SHARD##*/}; k=0
for d in selftest/mutants/*/ seeded/*/; do
  [ -f "$d/patch.diff" ] || continue
  k=$((k+1))
  if [ -n "$SELFTEST_SHARD" ] && [ $((k % shard_n)) -ne $((shard_i % shard_n)) ]; then continue; fi
  name=$(basename $d)
  case "$name" in *"$1"*) ;; *) continue;; esac
  [ -f "$d/expect.txt" ] || continue
  if [ -n "$onlyprop" ] && ! grep -qw "$onlyprop" "$d/expect.txt"; then continue; fi
  [ -f "$d/superseded.txt" ] && { echo "SELFTEST $name: skipped ($(cut -c1-120 $d/superseded.txt))"; continue; }
  s=$(mktemp -d /tmp/selftest${onlyprop}.XXXX)
  rsync -a --exclude .git $R/ $s/
  if ! (cd $s && patch -p1 -s < $V/$d/patch.diff); then echo "SELFTEST $name: PATCH DOES NOT APPLY"; fail=1; rm -rf $s; continue; fi
  if ! (cd $s && go build ./... >/dev/null 2>&1); then echo "SELFTEST $name: DOES NOT COMPILE"; fail=1; rm -rf $s; continue; fi
  while read -r prop want rest; do
    [ -z "$prop" ] && continue
    if [ -n "$onlyprop" ] && [ "$prop" != "harmless" ] && [ "$prop" != "$onlyprop" ]; then continue; fi
    if [ -n "$onlyprop" ] && [ "$prop" = "harmless" ]; then
      case " $want $rest " in *" $onlyprop "*) want=$onlyprop; rest="";; *) continue;; esac
    fi
    n=$((n+1))
    if [ "$prop" = "harmless" ]; then
      for p in $want $rest; do
        out=$(bin/govc check $p --repo $s --verif $V --evidence-dir $evd 2>&1)
        if echo "$out" | grep -q "^VIOLATION"; then echo "SELFTEST $name: FALSE ALARM on $p: $(echo "$out" | grep -m1 obligation)"; fail=1; else echo "SELFTEST $name: $p stays green (ok)"; fi
      done
      continue
    fi
    out=$(bin/govc check $prop --repo $s --verif $V --evidence-dir $evd 2>&1)
    if echo "$out" | grep "^  obligation" | grep -q -- "$want"; then echo "SELFTEST $name: $prop caught ($want)"; 
    elif echo "$out" | grep -q "^VIOLATION"; then echo "SELFTEST $name: $prop caught, but by another obligation: $(echo "$out" | grep -m1 '^  obligation' | cut -c1-160)"; 
    else echo "SELFTEST $name: $prop MISSED (wanted $want)"; fail=1; fi
  done < $d/expect.txt
  rm -rf $s
done
rm -rf $evd
echo "selftest: $n expectations, fail=$fail"
exit $fail
