#!/bin/bash
# usage: try.sh <seed worktree> <property>...   applies the worktree's change (production files only) to a scratch copy of /repo and runs the checks
export GOFLAGS=-mod=mod GOPROXY=off GOSUMDB=off GOTOOLCHAIN=local
w=$1; shift
s=$(mktemp -d /tmp/try.XXXX); rsync -a --exclude .git /repo/ $s/
(cd $w && git diff -- . ':!*_verif.go' ':!*_test.go') > $s/.try.patch
(cd $s && patch -p1 -s < .try.patch) || { echo "PATCH DOES NOT APPLY"; rm -rf $s; exit 1; }
(cd $s && go build ./... ) || { echo "DOES NOT COMPILE"; rm -rf $s; exit 1; }
for p in "$@"; do (cd /verif && bin/govc check $p --repo $s --evidence-dir /tmp/try-ev 2>&1 | grep "^VIOLATION\|^  obligation\|^property" | cut -c1-260 | head -5); done
rm -rf $s /tmp/try-ev
